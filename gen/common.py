"""Shared Hypothesis strategies and helpers for the property modules."""
from hypothesis import strategies as st

MASKS = [0, 1, 3, 7, 15, 63, 255, 1023]


@st.composite
def sched_line(draw, ctx, hist=False, extra=""):
    """The 'cfg' line: the schedule is part of the generated case."""
    seed = draw(st.integers(0, 2 ** 31 - 1))
    h = " hist=1" if hist else ""
    if ctx.get("native"):
        return "cfg seed=%d native=1%s%s" % (seed, h, extra)
    kind = draw(st.sampled_from(["random", "random", "random", "pct", "pct"]))
    if kind == "random":
        mask = draw(st.sampled_from(MASKS))
        return "cfg seed=%d strat=random mask=%d%s%s" % (seed, mask, h, extra)
    d = draw(st.integers(1, 3))
    pctlen = draw(st.sampled_from([1500, 6000, 25000]))
    return "cfg seed=%d strat=pct d=%d pctlen=%d%s%s" % (seed, d, pctlen, h, extra)


SCHED_KINDS = ["basic", "basic_wait", "prio", "randws"]


@st.composite
def simple_topology(draw, max_xs=3, scheds=("basic",), pool_kinds=("fifo",)):
    """n streams, one shared-access pool each.  Returns (lines, npools, nxs).
    Stream 0 is the primary stream with its default scheduler and pool 0."""
    nxs = draw(st.integers(1, max_xs))
    lines = ["pool 0 kind=fifo access=mpmc", "xs 0 sched=default pools=0"]
    for i in range(1, nxs):
        pk = draw(st.sampled_from(list(pool_kinds)))
        sk = draw(st.sampled_from(list(scheds)))
        lines.append("pool %d kind=%s access=mpmc" % (i, pk))
        lines.append("xs %d sched=%s pools=%d" % (i, sk, i))
    return lines, nxs, nxs


def stat(res, key):
    return res.stats.get(key, 0)
