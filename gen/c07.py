"""C07 - built-in pools are linearizable queues: each pushed unit is popped exactly once.

Generated: for each pool kind (FIFO, FIFO_WAIT, RANDWS) x access mode a pool attached to
no scheduler and 1..4 external threads - as many producers / consumers as the access mode
permits - issuing 4..16 operations in total: push (three API variants), push_many, pop
(three variants), pop_many, pop_wait / pop_timedwait with small timeouts, remove (private
pools, where the content is known), with the RANDWS context flags (create context = push
at the head, secondary owner = pop at the tail).  Units are real named ULTs / tasklets
that were popped out of a holding pool first and are run and freed at the end.
Oracle: the recorded history (call tick, return tick, result) must be linearizable with
respect to a sequential queue model (FIFO; RANDWS: deque whose ends are selected by the
context flags) - decided by a Wing-Gong backtracking search; a pop that returns nothing
must linearize where the model queue is empty; get_size / is_empty at the quiescent end
equal the model; no handle is returned that was never pushed; nothing hangs.
"""
from collections import deque
from hypothesis import strategies as st
from gen.common import sched_line, stat

RULE = ("case = pool kind x access mode + per-thread operation lists + schedule; non-trivial = "
        ">= 2 threads whose operations overlap in time (by the recorded ticks) and at least one "
        "pop that came back empty-handed or a pop_many; distinct = distinct case text")

TEST, HOLD = 1, 2


@st.composite
def cases(draw, ctx):
    kind = draw(st.sampled_from(["fifo", "fifo_wait", "randws", "randws"]))
    access = draw(st.sampled_from(["priv", "spsc", "mpsc", "spmc", "mpmc", "mpmc"]))
    nthreads = {"priv": 1, "spsc": 2}.get(access) or draw(st.integers(2, 4))
    lines = [draw(sched_line(ctx, extra=" tick=1000"))]
    lines += ["pool 0 kind=fifo access=mpmc", "xs 0 sched=default pools=0",
              "pool %d kind=%s access=%s" % (TEST, kind, access),
              "pool %d kind=fifo access=mpmc" % HOLD]
    producers = {"priv": [0], "spsc": [0], "spmc": [0],
                 "mpsc": list(range(nthreads)), "mpmc": list(range(nthreads))}[access]
    consumers = {"priv": [0], "spsc": [1], "mpsc": [nthreads - 1],
                 "spmc": list(range(1, nthreads)), "mpmc": list(range(nthreads))}[access]
    nunits = draw(st.integers(2, 8))
    owned = {t: [] for t in range(nthreads)}
    for u in range(nunits):
        owned[draw(st.sampled_from(producers))].append(u)
    progs = {t: [] for t in range(nthreads)}
    total = draw(st.integers(4, 16))
    model = deque()   # only used for private pools (remove needs a unit that is inside)
    for _ in range(total):
        t = draw(st.integers(0, nthreads - 1))
        ch = []
        if t in producers and owned[t]:
            ch += ["push", "push", "pushm"]
        if t in producers and t in consumers:
            ch.append("repush")
        if t in consumers:
            ch += ["pop", "pop", "popm", "popw"]
            if access == "priv" and model:
                ch.append("remove")
        if not ch:
            continue
        c = draw(st.sampled_from(ch))
        if c == "push":
            u = owned[t].pop()
            variant = draw(st.sampled_from([0, 1, 1, 2]))
            cx = draw(st.sampled_from([0, 1])) if variant == 1 else 0
            progs[t].append("ppush %d %d %d %d" % (TEST, u, variant, cx))
            if access == "priv":
                if cx == 1 and kind == "randws":
                    model.appendleft(u)
                else:
                    model.append(u)
        elif c == "pushm":
            n = min(len(owned[t]), draw(st.integers(1, 3)))
            us = [owned[t].pop() for _ in range(n)]
            progs[t].append("ppushm %d %s" % (TEST, " ".join(map(str, us))))
            model.extend(us)
        elif c == "repush":
            progs[t].append("ppush %d -1 0 0" % TEST)
            model.clear() if False else None
            if access == "priv":
                # the re-pushed unit is whatever the last pop returned: unknown here,
                # so removal of a known unit is disabled from now on
                model = deque()
                access_priv_remove_ok = False
        elif c == "pop":
            variant = draw(st.sampled_from([0, 1, 1, 2]))
            cx = draw(st.sampled_from([0, 2, 3])) if variant == 1 else 0
            progs[t].append("ppop %d %d %d" % (TEST, variant, cx))
            if access == "priv" and model:
                if cx == 2 and kind == "randws":
                    model.pop()
                else:
                    model.popleft()
        elif c == "popm":
            mx = draw(st.integers(1, 4))
            cx = draw(st.sampled_from([0, 0, 2]))
            progs[t].append("ppopm %d %d %d" % (TEST, mx, cx))
            for _ in range(min(mx, len(model))):
                if cx == 2 and kind == "randws":
                    model.pop()
                else:
                    model.popleft()
        elif c == "popw":
            variant = draw(st.sampled_from([3, 4, 5, 6, 6]))
            if variant == 6:
                # pop_wait_thread_ex: the context flag chooses the end of a RANDWS pool
                cx = draw(st.sampled_from([0, 2, 2, 3]))
                progs[t].append("ppop %d 6 %d" % (TEST, cx))
                if access == "priv" and model:
                    if cx == 2 and kind == "randws":
                        model.pop()
                    else:
                        model.popleft()
            else:
                progs[t].append("ppop %d %d %d" % (TEST, variant, draw(st.sampled_from([1, 30, 120]))))
                if access == "priv" and model:
                    model.popleft()
        elif c == "remove":
            u = draw(st.sampled_from(list(model)))
            model.remove(u)
            progs[t].append("premove %d %d" % (TEST, u))
    # a private pool whose thread re-pushed something: drop removes that follow the re-push
    if access == "priv":
        seen = False
        keep = []
        for op in progs[0]:
            if op.startswith("ppush %d -1" % TEST):
                seen = True
            if seen and op.startswith("premove"):
                continue
            keep.append(op)
        progs[0] = keep
    for u in range(nunits):
        lines.append("unit %d type=%s named=1 pool=%d : nop" %
                     (u, draw(st.sampled_from(["ult", "ult", "task"])), HOLD))
    main = ["create %d" % u for u in range(nunits)]
    main += ["ppopm %d 8 0" % HOLD]
    main += ["fset 1"]
    for t in range(nthreads):
        lines.append("ext %d : fwait 1; %s; fset %d" % (t, "; ".join(progs[t]) or "nop", 10 + t))
        main.append("fwait %d" % (10 + t))
    main += ["psize %d" % TEST, "ppopm %d 8 0" % TEST, "psize %d" % TEST]
    main += ["ppush 0 %d 0 0" % u for u in range(nunits)]
    lines.append("main : " + "; ".join(main))
    lines.append("note kind=%s access=%s threads=%d" % (kind, access, nthreads))
    return "\n".join(lines) + "\n"


def render(case, ctx):
    return case


# --------------------------------------------------------------------------
def parse_history(res):
    evs = []
    for n in res.notes:
        f = n.split()
        if f[0] != "q":
            continue
        actor, kind, pool, flag, t0, t1, ids = f[1], f[2], int(f[3]), int(f[4]), int(f[5]), int(f[6]), f[7]
        if pool != TEST:
            continue
        idl = [] if ids == "-" else [int(x) for x in ids.strip(",").split(",")]
        evs.append({"actor": actor, "kind": kind, "flag": flag, "t0": t0, "t1": t1, "ids": idl})
    return evs


def apply(q, ev, deq):
    """apply ev to queue q (a tuple); return new tuple or None if the result does not match"""
    k = ev["kind"]
    ids = ev["ids"]
    if k == "push":
        return ((ids[0],) + q) if (ev["flag"] and deq) else (q + (ids[0],))
    if k == "pushm":
        return q + tuple(ids)
    if k in ("pop", "popw"):
        if not ids:
            return q if not q else None
        if not q:
            return None
        if ev["flag"] and deq:
            return q[:-1] if q[-1] == ids[0] else None
        return q[1:] if q[0] == ids[0] else None
    if k.startswith("popm"):
        mx = int(k[4:])
        n = min(mx, len(q))
        if len(ids) != n:
            return None
        if ev["flag"] and deq:
            exp = tuple(reversed(q[len(q) - n:])) if n else ()
            return q[:len(q) - n] if tuple(ids) == exp else None
        return q[n:] if tuple(ids) == q[:n] else None
    if k == "remove":
        if ids[0] not in q:
            return None
        i = q.index(ids[0])
        return q[:i] + q[i + 1:]
    if k == "size":
        return q if (ids[0] == len(q) and bool(ids[1]) == (len(q) == 0)) else None
    return None


def linearizable(evs, deq):
    n = len(evs)
    seen = set()

    def rec(done, q):
        if len(done) == n:
            return True
        key = (done, q)
        if key in seen:
            return False
        seen.add(key)
        rest = [i for i in range(n) if i not in done]
        mint1 = min(evs[i]["t1"] for i in rest)
        for i in rest:
            if evs[i]["t0"] > mint1:
                continue   # some other pending op returned before this one was called
            nq = apply(q, evs[i], deq)
            if nq is not None and rec(done | frozenset([i]), nq):
                return True
        return False

    return rec(frozenset(), ())


def judge(text, res, ctx):
    evs = parse_history(res)
    if not evs:
        return None
    deq = "kind=randws" in text.split("note ")[-1]
    if len(evs) > 40:
        return None
    if not linearizable(evs, deq):
        evs.sort(key=lambda e: e["t0"])
        desc = "; ".join("%s %s%s[%d,%d]->%s" % (e["actor"], e["kind"], "*" if e["flag"] else "",
                                                  e["t0"], e["t1"], e["ids"]) for e in evs)
        return "history is not linearizable w.r.t. a %s: %s" % ("deque" if deq else "FIFO queue", desc[:1500])
    return None


def overlap(evs):
    for i, a in enumerate(evs):
        for b in evs[i + 1:]:
            if a["actor"] != b["actor"] and a["t0"] < b["t1"] and b["t0"] < a["t1"]:
                return True
    return False


def classify(text, res, ctx):
    out = []
    n = text.split("note ")[-1].split()
    out += n[:2]
    for k in ("pool_pops_empty", "pool_removes", "pool_pop_wait_ex", "pool_push_many_ex"):
        if stat(res, k):
            out.append(k)
    if overlap(parse_history(res)):
        out.append("overlapping_ops")
    return out


def nontrivial(text, res, ctx):
    evs = parse_history(res)
    return overlap(evs) and (stat(res, "pool_pops_empty") >= 1 or "ppopm %d" % TEST in text.split("main :")[0])


PLAN = {
    "quick": [("coarse", 6, 300), ("fine", 5, 250), ("san", 2, 100), ("native", 3, 200)],
    "thorough": [("coarse", 4, 6000), ("fine", 8, 4000), ("san", 2, 1500), ("native", 2, 4000)],
}
