"""C04 - ABT_mutex: mutual exclusion, recursion, trylock iff free, no lost wake-up.

Generated: 1..3 streams, 1..3 mutexes (dynamic / recursive / static initialisers),
2..6 lockers (ULT, tasklet, external thread, optionally the primary ULT) each
running properly nested lock/trylock/unlock sequences with yields inside and
outside the critical sections.  Oracle: inline holder bookkeeping in the
executor (see exec/ops.h, section C04) + dsched's deadlock / step-limit oracle.

Deadlock freedom of the *program* (so that a hang is the library's fault):
 * mutexes are acquired in increasing index order;
 * a mutex is 'nosched' if anybody may spin on it or a tasklet uses it: its
   critical sections contain no scheduling point and nested acquisitions inside
   it are spinlock/trylock only;
 * tasklets only use nosched mutexes; a non-recursive mutex is never re-locked
   by its holder.
"""
from hypothesis import strategies as st
from gen.common import sched_line, simple_topology, stat

RULE = ("case = topology + mutex kinds + one nested lock program per locker + schedule "
        "(strategy, seed, switch probability / PCT depth); non-trivial = at least one "
        "lock call was issued while another actor held that mutex (so the waiter path "
        "was exercised) and at least 2 lockers; distinct = distinct case text")

ACQ_NORMAL = ["lock", "lock", "lock_low", "lock_high", "trylock"]
ACQ_NOSCHED = ["lock", "spinlock", "spinlock", "trylock", "lock_high", "lock_low"]
REL = ["unlock", "unlock", "unlock_se", "unlock_de"]


@st.composite
def block(draw, lo, mclass, mrec, kind, in_nosched, depth):
    """One critical section on some mutex with index >= lo; returns op list."""
    cands = [m for m in range(lo, len(mclass))
             if (kind != "task" or mclass[m] == "nosched")]
    if not cands:
        return []
    m = draw(st.sampled_from(cands))
    if in_nosched:
        acq = draw(st.sampled_from(["spinlock", "trylock"]
                                   if mclass[m] == "nosched" else ["trylock"]))
    elif mclass[m] == "nosched":
        acq = draw(st.sampled_from(ACQ_NOSCHED))
    else:
        acq = draw(st.sampled_from(ACQ_NORMAL))
    body_nosched = in_nosched or mclass[m] == "nosched"
    ops = ["%s %d" % (acq, m)]
    n = draw(st.integers(0, 3))
    for _ in range(n):
        choices = ["work"]
        if not body_nosched and kind != "task":
            choices += ["yield", "yield"]
        if depth < 2 and m + 1 < len(mclass):
            choices.append("nest")
        if mrec[m] and depth < 3:
            choices.append("relock")
        c = draw(st.sampled_from(choices))
        if c == "work":
            ops.append("work %d" % draw(st.integers(1, 3)))
        elif c == "yield":
            ops.append("yield")
        elif c == "nest":
            ops += draw(block(m + 1, mclass, mrec, kind, body_nosched, depth + 1))
        elif c == "relock":
            # recursive acquisition by the holder never blocks
            acq2 = draw(st.sampled_from(["lock", "trylock", "spinlock", "lock_low"]))
            ops.append("%s %d" % (acq2, m))
            if draw(st.booleans()):
                ops.append("work 1")
            ops.append("%s %d" % (draw(st.sampled_from(REL)), m))
    ops.append("%s %d" % (draw(st.sampled_from(REL)), m))
    return ops


@st.composite
def locker_prog(draw, mclass, mrec, kind):
    ops = []
    for _ in range(draw(st.integers(1, 3))):
        ops += draw(block(0, mclass, mrec, kind, False, 0))
        if kind in ("ult", "main") and draw(st.booleans()):
            ops.append("yield")
        elif kind == "ext" and draw(st.booleans()):
            ops.append("work 2")
    return ops


@st.composite
def cases(draw, ctx):
    topo, npools, nxs = draw(simple_topology(max_xs=3))
    nm = draw(st.integers(1, 3))
    mkinds = [draw(st.sampled_from(["dyn", "dyn", "rec", "static", "staticrec"]))
              for _ in range(nm)]
    mrec = [k in ("rec", "staticrec") for k in mkinds]
    mclass = [draw(st.sampled_from(["normal", "normal", "nosched"])) for _ in range(nm)]
    nlock = draw(st.integers(2, 6))
    kinds = []
    for _ in range(nlock):
        k = draw(st.sampled_from(["ult", "ult", "ult", "ext", "task"]))
        if k == "task" and "nosched" not in mclass:
            k = "ult"
        kinds.append(k)
    lines = [draw(sched_line(ctx))] + topo
    for i, k in enumerate(mkinds):
        lines.append("mutex %d kind=%s" % (i, k))
    nu = ne = 0
    creates = []
    joins = []
    for k in kinds:
        prog = draw(locker_prog(mclass, mrec, k))
        if k == "ext":
            lines.append("ext %d : %s" % (ne, "; ".join(prog)))
            ne += 1
        else:
            named = draw(st.booleans())
            pool = draw(st.integers(0, npools - 1))
            lines.append("unit %d type=%s named=%d pool=%d : %s" %
                         (nu, k, int(named), pool, "; ".join(prog)))
            creates.append("create %d" % nu)
            if named and draw(st.booleans()):
                joins.append(("join %d" if draw(st.booleans()) else "free %d") % nu)
            nu += 1
    main = list(creates)
    if draw(st.booleans()):
        main += draw(locker_prog(mclass, mrec, "main"))
    main += joins
    lines.append("main : " + "; ".join(main))
    lines.append("note classes=" + ",".join(mclass))
    return "\n".join(lines) + "\n"


def render(case, ctx):
    return case


def judge(text, res, ctx):
    return None  # all oracles of C04 are inline in the executor


def classify(text, res, ctx):
    out = []
    if stat(res, "contended_lock"):
        out.append("contended")
    if stat(res, "trylock_busy"):
        out.append("trylock_busy")
    if stat(res, "recursive_relock"):
        out.append("recursive")
    if "type=task" in text:
        out.append("tasklet")
    if "\next " in text:
        out.append("external")
    return out


def nontrivial(text, res, ctx):
    return stat(res, "contended_lock") >= 1

PLAN = {
    "quick": [("coarse", 10, 250), ("san", 4, 100), ("native", 2, 150)],
    "thorough": [("coarse", 6, 6000), ("fine", 6, 4000), ("san", 2, 2000), ("nopool", 1, 1500),
                 ("native", 1, 3000)],
}
