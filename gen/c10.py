"""C10 - reader-writer lock: writers exclusive, readers shared, nobody stuck.

Generated: 2..6 lockers (ULT / external thread / primary ULT; tasklets must be refused)
running sequences of rdlock/wrlock ... unlock with yields inside and outside, on 1..2
rwlocks (nested only in increasing index order), plus the reader-rendezvous pattern
(reader A keeps its read lock until reader B has got in).  Oracle (inline): on wrlock
return no reader and no writer holds; on rdlock return no writer holds; the rendezvous
completes (a reader blocked by readers would deadlock: deadlock oracle); everybody
finishes.
"""
from hypothesis import strategies as st
from gen.common import sched_line, simple_topology, stat

RULE = ("case = topology + rdlock/wrlock/unlock programs (+ reader rendezvous) + schedule; "
        "non-trivial = a writer had to wait for >= 2 readers, or a reader joined other readers "
        "while a writer was queued; distinct = distinct case text")


@st.composite
def section(draw, lo, nrw, kind, depth):
    r = draw(st.integers(lo, nrw - 1))
    mode = draw(st.sampled_from(["rdlock", "rdlock", "wrlock"]))
    ops = ["%s %d" % (mode, r)]
    for _ in range(draw(st.integers(0, 2))):
        c = draw(st.sampled_from(["work", "yield", "nest"]))
        if c == "work":
            ops.append("work %d" % draw(st.integers(1, 3)))
        elif c == "yield":
            ops.append("yield" if kind != "ext" else "work 2")
        elif r + 1 < nrw and depth < 1:
            ops += draw(section(r + 1, nrw, kind, depth + 1))
    ops.append("rwunlock %d" % r)
    return ops


@st.composite
def many_holds(draw, ctx):
    """"any number of readers may hold it together": a large number of simultaneous read
    holds (around the 8-, 16- and 17-bit boundaries), then a writer that must wait for all of
    them.  Real threads only: under dsched 65536 lock calls exceed the step budget."""
    n = draw(st.sampled_from([255, 256, 257, 1000, 65535, 65536, 65536, 65537, 131072]))
    split = draw(st.integers(1, 3))
    lines = ["cfg seed=%d native=1 tick=1000" % draw(st.integers(0, 1 << 20)),
             "pool 0 kind=fifo access=mpmc", "xs 0 sched=default pools=0",
             "pool 1 kind=fifo access=mpmc", "xs 1 sched=basic pools=1", "rwlock 0"]
    parts = [n // split] * split
    parts[0] += n - sum(parts)
    units, main = [], []
    for i, k in enumerate(parts):
        units.append("unit %d type=ult named=1 pool=%d : rdlockn 0 %d; fset %d; fwait 9; rwunlockn 0 %d" %
                     (i, draw(st.integers(0, 1)), k, i + 1, k))
        main.append("create %d" % i)
    w = len(units)
    units.append("unit %d type=ult named=1 pool=1 : %s; wrlock 0; work 1; rwunlock 0" %
                 (w, "; ".join("fwait %d" % (i + 1) for i in range(split))))
    main.append("create %d" % w)
    main += ["fwait %d" % (i + 1) for i in range(split)] + ["yieldn %d" % draw(st.integers(2, 6)), "fset 9"]
    main += ["free %d" % i for i in range(len(units))]
    lines += units
    lines.append("main : " + "; ".join(main))
    lines.append("note many n=%d" % n)
    return "\n".join(lines) + "\n"


@st.composite
def cases(draw, ctx):
    if ctx.get("variant") == "many":
        return draw(many_holds(ctx))
    topo, npools, nxs = draw(simple_topology(max_xs=3))
    lines = [draw(sched_line(ctx))] + topo
    nrw = draw(st.sampled_from([1, 1, 2]))
    for r in range(nrw):
        lines.append("rwlock %d" % r)
    actors = []
    for _ in range(draw(st.integers(2, 6))):
        kind = draw(st.sampled_from(["ult", "ult", "ult", "ext", "main"]))
        prog = []
        for _ in range(draw(st.integers(1, 3))):
            prog += draw(section(0, nrw, kind, 0))
            if draw(st.booleans()):
                prog.append("yield" if kind != "ext" else "work 2")
        actors.append((kind, prog))
    flag = 1
    for _ in range(draw(st.sampled_from([0, 1, 1, 2]))):
        r = draw(st.integers(0, nrw - 1))
        ka = draw(st.sampled_from(["ult", "ext"]))
        kb = draw(st.sampled_from(["ult", "ext"]))
        actors.append((ka, ["rdlock %d" % r, "fset %d" % flag, "fwait %d" % (flag + 1),
                            "rwunlock %d" % r]))
        actors.append((kb, ["fwait %d" % flag, "rdlock %d" % r, "fset %d" % (flag + 1),
                            "rwunlock %d" % r]))
        flag += 2
    # writer-gated rendezvous: two readers queue up behind a writer; when it unlocks
    # both must get in together (each waits inside its read section for the other)
    var = 0
    for _ in range(draw(st.sampled_from([0, 1, 1]))):
        r = draw(st.integers(0, nrw - 1))
        kw = draw(st.sampled_from(["ult", "ext"]))
        ka = draw(st.sampled_from(["ult", "ext"]))
        kb = draw(st.sampled_from(["ult", "ext"]))
        g, ain, bin_ = flag, flag + 1, flag + 2
        flag += 3
        actors.append((kw, ["wrlock %d" % r, "fset %d" % g, "awaitvar %d 2" % var] +
                       ["yield" if kw == "ult" else "work 3"] * draw(st.integers(0, 4)) +
                       ["rwunlock %d" % r]))
        actors.append((ka, ["fwait %d" % g, "varadd %d 1" % var] +
                       ["work %d" % draw(st.integers(1, 6))] * draw(st.integers(0, 1)) +
                       ["rdlock %d" % r, "fset %d" % ain, "fwait %d" % bin_, "rwunlock %d" % r]))
        actors.append((kb, ["fwait %d" % g, "varadd %d 1" % var] +
                       ["work %d" % draw(st.integers(1, 6))] * draw(st.integers(0, 1)) +
                       ["rdlock %d" % r, "fset %d" % bin_, "fwait %d" % ain, "rwunlock %d" % r]))
        var += 1
    for _ in range(draw(st.sampled_from([0, 0, 1]))):
        actors.append(("task", ["%s_rej %d" % (draw(st.sampled_from(["rdlock", "wrlock"])),
                                              draw(st.integers(0, nrw - 1)))]))
    actors = draw(st.permutations(actors))
    units, exts, creates, mains = [], [], [], []
    seen_main = False
    for kind, prog in actors:
        if kind == "main" and seen_main:
            kind = "ult"
        if kind == "ext":
            exts.append(prog)
        elif kind == "main":
            seen_main = True
            mains = prog
        else:
            i = len(units)
            units.append("unit %d type=%s named=%d pool=%d : %s" %
                         (i, kind, int(draw(st.booleans())), draw(st.integers(0, npools - 1)),
                          "; ".join(prog)))
            creates.append("create %d" % i)
    for i, p in enumerate(exts):
        lines.append("ext %d : %s" % (i, "; ".join(p)))
    lines += units
    lines.append("main : " + "; ".join(creates + mains))
    return "\n".join(lines) + "\n"


def render(case, ctx):
    return case


def judge(text, res, ctx):
    return None


def classify(text, res, ctx):
    out = []
    for k in ("writer_waits_for_2_readers", "reader_joins_with_writer_queued", "shared_readers",
              "writer_waits", "reader_waits_for_writer", "tasklet_rejected"):
        if stat(res, k):
            out.append(k)
    if "fwait" in text:
        out.append("rendezvous")
    return out


def nontrivial(text, res, ctx):
    if "note many" in text:
        return stat(res, "writer_waits") >= 1 and stat(res, "max_read_holds") >= 255
    return (stat(res, "writer_waits_for_2_readers") >= 1 or
            stat(res, "reader_joins_with_writer_queued") >= 1)


PLAN = {
    "quick": [("coarse", 10, 250), ("san", 4, 80), ("native", 2, 150), ("native", 1, 40, "many")],
    "thorough": [("coarse", 6, 5000), ("fine", 6, 3000), ("san", 2, 1500), ("nopool", 1, 1000),
                 ("native", 1, 2500), ("native", 1, 300, "many")],
}
