"""C17 - execution-stream ranks are unique and the stream life cycle is repeatable.

Generated: stateful sequences (by the primary ULT, driven by a Python set-of-ranks model)
of ABT_xstream_create / create_basic / create_with_rank(r) / set_rank / join / revive /
free / set_main_sched_basic with small rank values, so that collisions and insertions at
the head, middle and tail of the rank-ordered list are common; work units are pushed to
the streams' pools before and after a revive and after a scheduler replacement; a
concurrent phase in which several ULTs and external threads create streams at once.
Oracle (executor, exec/ops_stream.h): rank-less creation receives the smallest unused
rank; create_with_rank / set_rank succeed iff no live stream has the rank (otherwise
ABT_ERR_INV_XSTREAM_RANK, NULL handle, nothing changed); ranks reported by
ABT_xstream_get_rank equal the model and are pairwise distinct at every quiescent
point; ABT_xstream_get_num equals the number of live streams; a unit's
ABT_self_get_xstream_rank names a stream serving its pool (C01 bookkeeping), units
complete after revive and under the new main scheduler, the caller of set_main_sched
continues; join returns with the stream TERMINATED, revive makes it RUNNING.
"""
from hypothesis import strategies as st
from gen.common import sched_line, stat

RULE = ("case = model-driven sequence of stream life-cycle ops with units in between + concurrent "
        "creation phase + schedule; non-trivial = a rank was reused after a free and a stream was "
        "revived, or >= 2 actors created streams concurrently, or a rank collision was rejected; "
        "distinct = distinct case text")

NS = 6  # late streams 1..6


@st.composite
def selfreplace(draw, ctx):
    """A ULT running on a secondary stream replaces that stream's main scheduler while it is
    associated with any of the old scheduler's pools (first or later), with a new scheduler
    that has fewer, as many or more pools: the caller must continue under the new scheduler
    (first pool), units created afterwards in the new pools must run, and the stream must
    still join."""
    lines = [draw(sched_line(ctx, extra=" tick=10000"))]
    nold = draw(st.integers(1, 3))
    nnew = draw(st.integers(1, 2))
    lines.append("pool 0 kind=fifo access=mpmc")
    for i in range(1, nold + 1):
        lines.append("pool %d kind=%s access=mpmc" % (i, draw(st.sampled_from(["fifo", "fifo", "randws"]))))
    for i in range(nnew):
        lines.append("pool %d kind=fifo access=mpmc" % (10 + i))
    lines.append("xs 0 sched=default pools=0")
    lines.append("xs 1 sched=%s pools=%s alt=%s" % (
        draw(st.sampled_from(["basic", "prio"])), ",".join(str(i) for i in range(1, nold + 1)),
        ",".join(str(10 + i) for i in range(nnew))))
    k = draw(st.integers(1, nold))
    body = ["yieldn %d" % draw(st.integers(0, 2)), "setmain 1 %d" % draw(st.sampled_from([1, 3])),
            "selfstate", "fset 1", "yieldn %d" % draw(st.integers(0, 3)), "work 1"]
    units = ["unit 0 type=ult named=1 pool=%d : %s" % (k, "; ".join(body))]
    main = ["create 0", "fwait 1"]
    ids = [0]
    for _ in range(draw(st.integers(0, 3))):
        u = len(units)
        units.append("unit %d type=%s named=1 pool=%d : %s" % (
            u, draw(st.sampled_from(["ult", "ult", "task"])), 10 + draw(st.integers(0, nnew - 1)),
            draw(st.sampled_from(["nop", "work 1", "yield"])) ))
        main.append("create %d" % u)
        ids.append(u)
    units = [x.replace("type=task named=1", "type=task named=1") for x in units]
    main += ["free %d" % u for u in draw(st.permutations(ids))]
    main += [draw(st.sampled_from(["xsjoin 1", "xsfree 1"]))]
    lines += units
    lines.append("main : " + "; ".join(main))
    lines.append("note c17-selfreplace k=%d nold=%d nnew=%d" % (k, nold, nnew))
    return "\n".join(lines) + "\n"


@st.composite
def cases(draw, ctx):
    if ctx.get("variant") == "selfreplace":
        return draw(selfreplace(ctx))
    lines = [draw(sched_line(ctx, extra=" tick=10000"))]
    # pools: 0 primary; i -> stream i; 10,11 alternative pools
    lines.append("pool 0 kind=fifo access=mpmc")
    for i in range(1, NS + 1):
        lines.append("pool %d kind=%s access=mpmc" % (i, draw(st.sampled_from(["fifo", "fifo", "fifo_wait", "randws"]))))
    lines.append("pool 10 kind=fifo access=mpmc")
    lines.append("pool 11 kind=fifo access=mpmc")
    lines.append("pool 12 kind=fifo access=mpmc")
    replace_primary = draw(st.integers(0, 3)) == 0
    lines.append("xs 0 sched=default pools=0" + (" alt=10,11" if replace_primary else ""))
    alt_stream = draw(st.integers(1, NS))
    for i in range(1, NS + 1):
        lines.append("xs %d sched=%s pools=%d late=1%s" %
                     (i, draw(st.sampled_from(["basic", "prio", "randws"])), i,
                      " alt=12" if i == alt_stream else ""))
    # model
    live = {}        # stream -> rank
    joined = set()
    freed_ranks = set()
    reused = False
    units = []
    main = []
    altpool = {0: [0]}
    stream_pool = {i: [i] for i in range(1, NS + 1)}

    def add_work(si):
        """a few units in the pools of live, running stream si, joined afterwards"""
        out = []
        ids = []
        for _ in range(draw(st.integers(1, 3))):
            u = len(units)
            p = draw(st.sampled_from(stream_pool[si] if si else altpool[0]))
            # the primary ULT joins a tasklet by yield-polling: only from its own pool
            kinds = ["ult", "task"] if (si or p == altpool[0][0]) else ["ult"]
            units.append("unit %d type=%s named=1 pool=%d : %s" %
                         (u, draw(st.sampled_from(kinds)), p,
                          draw(st.sampled_from(["nop", "work 2", "work 1"]))))
            out.append("create %d" % u)
            ids.append(u)
        out += ["free %d" % u for u in ids]
        return out

    nops = draw(st.integers(3, 14))
    did_replace_primary = False
    did_sec = False
    for _ in range(nops):
        dead = [i for i in range(1, NS + 1) if i not in live]
        running = [i for i in live if i not in joined]
        choices = []
        if dead:
            choices += ["create", "create", "create_rank", "create_rank", "basic"]
        if live:
            choices += ["setrank", "setrank"]
        if running:
            choices += ["join", "work", "work"]
        if joined:
            choices += ["revive", "free", "revive"]
            if alt_stream in joined and not did_sec:
                choices.append("setmain_sec")
        if live:
            choices.append("free")
        if replace_primary and not did_replace_primary:
            choices.append("setmain0")
        choices.append("check")
        c = draw(st.sampled_from(choices))
        used = set(live.values()) | {0}
        if c in ("create", "basic"):
            i = draw(st.sampled_from(dead))
            r = min(x for x in range(0, 20) if x not in used)
            main.append(("xscreate %d -1 1" if c == "create" else "xsbasic %d 1") % i)
            live[i] = r
            if r in freed_ranks:
                reused = True
        elif c == "create_rank":
            i = draw(st.sampled_from(dead))
            r = draw(st.integers(0, 7))
            main.append("xscreate %d %d 1" % (i, r))
            if r not in used:
                live[i] = r
                if r in freed_ranks:
                    reused = True
        elif c == "setrank":
            i = draw(st.sampled_from(sorted(live)))
            r = draw(st.integers(0, 8))
            main.append("setrank %d %d" % (i, r))
            if r not in (used - {live[i]}):
                live[i] = r
        elif c == "join":
            i = draw(st.sampled_from(running))
            main.append("xsjoin %d" % i)
            joined.add(i)
        elif c == "work":
            i = draw(st.sampled_from(running))
            main += add_work(i)
        elif c == "revive":
            i = draw(st.sampled_from(sorted(joined)))
            main.append("xsrevive %d" % i)
            joined.discard(i)
            main += add_work(i)
        elif c == "free":
            i = draw(st.sampled_from(sorted(live)))
            main.append("xsfree %d" % i)
            freed_ranks.add(live[i])
            del live[i]
            joined.discard(i)
            if i == alt_stream:
                # (the executor keeps the pool list the stream had last: after a scheduler
                # replacement a re-created stream gets the alternative pool again)
                did_sec = True   # the alternative pool list is used up / gone with the stream
        elif c == "setmain_sec":
            main.append("setmain %d %d" % (alt_stream, draw(st.sampled_from([1, 3, 4]))))
            stream_pool[alt_stream] = [12]
            did_sec = True
            main.append("xsrevive %d" % alt_stream)
            joined.discard(alt_stream)
            main += add_work(alt_stream)
        elif c == "setmain0":
            main.append("setmain 0 %d" % draw(st.sampled_from([1, 3])))
            altpool[0] = [10, 11]
            did_replace_primary = True
            main += add_work(0)
        else:
            main.append("rankcheck 1")
    main.append("rankcheck 1")
    # concurrent creation phase: each actor creates (and the primary ULT later frees) its own streams
    dead = [i for i in range(1, NS + 1) if i not in live]
    exts = []
    nconc = 0
    if len(dead) >= 2 and draw(st.booleans()):
        k = draw(st.integers(2, min(3, len(dead))))
        chosen = dead[:k]
        flag = 1
        waits = []
        for j, i in enumerate(chosen):
            rank = draw(st.sampled_from([-1, -1, draw(st.integers(0, 7))]))
            op = "xscreate %d %d 0" % (i, rank)
            if draw(st.booleans()):
                exts.append(["fwait 40", op, "fset %d" % (40 + flag)])
            else:
                u = len(units)
                units.append("unit %d type=ult named=0 pool=%d : fwait 40; %s; fset %d" %
                             (u, 0 if not did_replace_primary else 10, op, 40 + flag))
                main.append("create %d" % u)
            waits.append("fwait %d" % (40 + flag))
            flag += 1
            nconc += 1
        main += ["fset 40"] + waits + ["rankcheck 1"]
    for i, p in enumerate(exts):
        lines.append("ext %d : %s" % (i, "; ".join(p)))
    lines += units
    lines.append("main : " + "; ".join(main))
    lines.append("note reused=%d conc=%d" % (int(reused), nconc))
    return "\n".join(lines) + "\n"


def render(case, ctx):
    return case


def judge(text, res, ctx):
    return None


def classify(text, res, ctx):
    out = []
    for k in ("rank_collisions_rejected", "rank_changes", "stream_revives", "main_sched_replaced",
              "main_sched_self_replaced_secondary",
              "streams_created", "xsjoins"):
        if stat(res, k):
            out.append(k)
    if "reused=1" in text:
        out.append("rank_reused")
    if "conc=2" in text or "conc=3" in text:
        out.append("concurrent_creators")
    return out


def nontrivial(text, res, ctx):
    if "note c17-selfreplace" in text:
        # non-trivial: the caller sat in a later pool of the old scheduler, or the pool count changed
        import re
        m = re.search(r"k=(\d+) nold=(\d+) nnew=(\d+)", text)
        return stat(res, "main_sched_self_replaced_secondary") >= 1 and \
            (int(m.group(1)) > 1 or m.group(2) != m.group(3))
    return ("reused=1" in text and stat(res, "stream_revives") >= 1) or \
        ("conc=2" in text or "conc=3" in text) or stat(res, "rank_collisions_rejected") >= 1


PLAN = {
    "quick": [("coarse", 10, 200), ("san", 4, 60), ("native", 2, 80), ("coarse", 2, 150, "selfreplace"),
              ("native", 1, 60, "selfreplace")],
    "thorough": [("coarse", 6, 3000), ("fine", 6, 1500), ("san", 2, 800), ("nopool", 1, 800),
                 ("native", 1, 1500), ("coarse", 2, 2000, "selfreplace"), ("fine", 2, 1000, "selfreplace"),
                 ("native", 1, 500, "selfreplace")],
}
