"""C14 - user-defined pools and schedulers see a consistent unit <-> work-unit mapping.

Generated: 1..3 streams whose schedulers (BASIC, PRIO or a user-defined scheduler that
visits its pools in a rotating order and runs units with ABT_self_schedule) serve mixes of
built-in pools and user-defined pools in both definition forms (ABT_pool_user_def and the
legacy ABT_pool_def); the user pools choose their unit handles so that all handles of a pool
fall into one bucket of the runtime's unit->thread hash table, and pop in FIFO, LIFO,
"k-th element" or "refuse m times, then pop" order; ULTs and tasklets are created by the
primary ULT and by other units, yield, create children, join them, migrate themselves
between built-in and user pools (re-mapping their unit) and check the translation of their
own unit handle while other streams create and destroy units.
Oracle (executor, exec/ops_user.h): call automaton per unit handle - create_unit exactly
once at the start of an association, free_unit exactly once at its end, never a push or
free of a handle that is not live or belongs to another pool, no handle queued twice;
ABT_unit_get_thread(ABT_thread_get_unit(self)) == self and the handle is the one the unit's
current user pool created; after ABT_finalize no handle is live and creates == frees per
pool; every unit runs exactly once (C01 bookkeeping) whatever the pop policy.
"""
from hypothesis import strategies as st
from gen.common import sched_line, stat

RULE = ("case = topology with user pools (handle bucket, pop policy, definition form) + units + "
        "self-migrations + schedule; non-trivial = at least 3 live units in one hash bucket at some "
        "point, or a unit re-mapped between a user pool and another pool; distinct = distinct case text")


@st.composite
def cases(draw, ctx):
    nxs = draw(st.integers(1, 3))
    lines = [draw(sched_line(ctx, extra=" tick=1000"))]
    pools = []   # (kind)
    xs_lines = []
    bucket = draw(st.integers(0, 250))
    share_bucket = draw(st.booleans())
    for x in range(nxs):
        npl = draw(st.sampled_from([1, 1, 2]))
        pl = []
        for _ in range(npl):
            kind = draw(st.sampled_from(["fifo", "user", "user", "userlegacy"]))
            if x == 0 and not pl:
                kind = draw(st.sampled_from(["fifo", "fifo", "user"]))
            p = len(pools)
            policy = draw(st.integers(0, 3)) | ((bucket if share_bucket else draw(st.integers(0, 250))) << 2) \
                | (draw(st.integers(0, 3)) << 10) | (draw(st.integers(0, 1)) << 12) \
                | (draw(st.integers(0, 1)) << 13)
            lines.append("pool %d kind=%s access=mpmc policy=%d" % (p, kind, policy))
            pools.append(kind)
            pl.append(p)
        sched = draw(st.sampled_from(["basic", "prio", "user", "user"]))
        xs_lines.append("xs %d sched=%s pools=%s" % (x, sched, ",".join(map(str, pl))))
    lines += xs_lines
    npools = len(pools)
    nunits = draw(st.integers(3, 16))
    units = []
    progs = {"main": []}
    named = {}
    parent_of = {}
    for u in range(nunits):
        kind = draw(st.sampled_from(["ult", "ult", "ult", "task"]))
        nm = draw(st.booleans())
        pool = draw(st.integers(0, npools - 1))
        creator = draw(st.sampled_from(["main"] + [v for v in range(u) if units[v][0] == "ult"][:6]))
        body = []
        for _ in range(draw(st.integers(1, 5))):
            c = draw(st.sampled_from(["uself", "uself", "yield", "work", "mig"]))
            if c == "uself":
                body.append("uself")
            elif c == "yield" and kind == "ult":
                body.append("yield")
            elif c == "work":
                body.append("work %d" % draw(st.integers(1, 3)))
            elif c == "mig" and kind == "ult":
                body += ["migpool -1 %d" % draw(st.integers(0, npools - 1)), "yield", "uself"]
        units.append([kind, nm, pool, body, []])
        named[u] = nm
        parent_of[u] = creator
    for u in range(nunits):
        c = parent_of[u]
        op = "create %d" % u
        if c == "main":
            progs["main"].append(op)
        else:
            units[c][4].append(op)
    # creators join some of their named ULT children (blocking joins only)
    for u in range(nunits):
        c = parent_of[u]
        if units[u][1] and units[u][0] == "ult" and draw(st.booleans()):
            op = draw(st.sampled_from(["join %d", "free %d"])) % u
            if c == "main":
                progs["main"].append(op)
            else:
                units[c][3].append(op)
    # bulk moves between pools by the primary ULT (pop_threads + push_threads re-associates)
    if npools >= 2:
        for _ in range(draw(st.integers(0, 3))):
            a = draw(st.integers(0, npools - 1))
            b = draw(st.sampled_from([p for p in range(npools) if p != a]))
            pos = draw(st.integers(0, len(progs["main"])))
            progs["main"].insert(pos, "pmove %d %d %d" % (a, b, draw(st.integers(1, 4))))
    for u, (kind, nm, pool, body, creates) in enumerate(units):
        lines.append("unit %d type=%s named=%d pool=%d : %s" %
                     (u, kind, int(nm), pool, "; ".join(creates + body) or "nop"))
    lines.append("main : " + "; ".join(progs["main"]))
    return "\n".join(lines) + "\n"


def render(case, ctx):
    return case


def judge(text, res, ctx):
    return None


def classify(text, res, ctx):
    out = []
    for k in ("user_create_unit", "uself_user", "migrations_observed", "user_scheds"):
        if stat(res, k):
            out.append(k)
    if stat(res, "max_live_units_in_one_bucket") >= 3:
        out.append("bucket_chain>=3")
    for k in ("kind=userlegacy", "sched=user", "type=task"):
        if k in text:
            out.append(k)
    return out


def nontrivial(text, res, ctx):
    return stat(res, "max_live_units_in_one_bucket") >= 3 or \
        (stat(res, "migrations_observed") >= 1 and "kind=user" in text)


PLAN = {
    "quick": [("coarse", 7, 300), ("fine", 4, 200), ("san", 3, 100), ("native", 2, 150)],
    "thorough": [("coarse", 5, 6000), ("fine", 7, 3000), ("san", 2, 1500), ("nopool", 1, 1000),
                 ("native", 1, 2500)],
}
