"""C11 - suspend/resume and directed switches hand control exactly as documented.

(b) Resume race (this file, `race`): a suspender does k rounds of ABT_self_suspend; a
resumer on another stream, the same stream or an external thread waits until the
suspender has announced the round and its BLOCKED state is observable, then calls
ABT_thread_resume exactly once.  Oracle (executor): the suspender never returns from a
suspend without a resume having been issued for that round, k resumes give k returns,
every op of every unit runs once and in order (double program counter), pools are empty
at the end, nobody hangs.
(a) Single-stream chains (`chains`): 2..6 ULTs in 1..2 pools of one stream execute
generated chains of yield / pop+yield_to / thread_yield_to / create_to / suspend /
pop+suspend_to / resume / resume_yield_to / resume_suspend_to / pop+exit_to /
resume_exit_to / exit.  The programs are produced by running a reference interpreter
of the documented semantics (ready queues per pool, states); the executor's observed
order of (unit, op) events, the identity of every popped unit and the sampled states
must equal the interpreter's prediction (differential oracle, schedule-free).
"""
from collections import deque
from hypothesis import strategies as st
from gen.common import sched_line, simple_topology, stat

RULE = ("race: case = topology + (suspender, resumer kind, rounds) pairs + schedule; chains: "
        "case = pools + per-unit op lists produced by the reference interpreter; non-trivial = "
        "race: a resume issued from another OS thread than the suspender's stream; chains: "
        ">= 4 directed switches; distinct = distinct case text")


@st.composite
def race(draw, ctx):
    topo, npools, nxs = draw(simple_topology(max_xs=3, scheds=("basic", "prio", "randws", "basic_wait",
                                                                "basic_wait"),
                                             pool_kinds=("fifo", "fifo", "fifo_wait", "fifo_wait", "randws")))
    lines = [draw(sched_line(ctx, extra=" tick=1000"))] + topo
    units, exts, main_ops, tail = [], [], [], []
    for _ in range(draw(st.integers(1, 3))):
        k = draw(st.integers(1, 4))
        s = len(units)
        sp = draw(st.integers(0, npools - 1))
        prog = []
        for _ in range(k):
            prog.append("susp")
            c = draw(st.sampled_from(["", "yield", "work 2", "selfstate"]))
            if c:
                prog.append(c)
        units.append("unit %d type=ult named=1 pool=%d : %s" % (s, sp, "; ".join(prog)))
        main_ops.append("create %d" % s)
        rk = draw(st.sampled_from(["ult", "ult", "ext", "main"]))
        rprog = []
        for _ in range(k):
            rprog.append("resume %d" % s)
            if draw(st.booleans()):
                rprog.append("work %d" % draw(st.integers(1, 4)))
        if rk == "ext":
            main_ops.append("fset %d" % (10 + s))
            exts.append(["fwait %d" % (10 + s)] + rprog)
        elif rk == "main":
            tail += rprog
        else:
            r = len(units)
            units.append("unit %d type=ult named=0 pool=%d : %s" %
                         (r, draw(st.integers(0, npools - 1)), "; ".join(rprog)))
            main_ops.append("create %d" % r)
    # the streams may be joined while resumes from other threads are still in flight: a
    # suspended ULT keeps its stream alive (blocked count) until it has been resumed, pushed
    # back and has run - "exactly once per resume" includes the last one
    if nxs > 1 and draw(st.booleans()):
        for x in draw(st.permutations(list(range(1, nxs)))):
            if draw(st.integers(0, 2)) > 0:
                tail.append("%s %d" % (draw(st.sampled_from(["xsjoin", "xsjoin", "xsfree"])), x))
    for i, p in enumerate(exts):
        lines.append("ext %d : %s" % (i, "; ".join(p)))
    lines += units
    lines.append("main : " + "; ".join(main_ops + tail))
    lines.append("note race")
    return "\n".join(lines) + "\n"


# ---------------------------------------------------------------------------
# reference interpreter for single-stream chains
READY, RUNNING, BLOCKED, TERMINATED = 0, 1, 2, 3


class Model:
    def __init__(self, npools, main_pool):
        self.q = [deque() for _ in range(npools)]
        self.state = {"main": RUNNING}
        self.pool = {"main": main_pool}
        self.prog = {"main": []}
        self.trace = []          # (unit, pc)
        self.cur = "main"
        self.created = []

    def log(self, u):
        self.trace.append((u, len(self.prog[u])))

    def emit(self, op):
        self.log(self.cur)
        self.prog[self.cur].append(op)

    def sched_next(self):
        for q in self.q:
            if q:
                u = q.popleft()
                self.state[u] = RUNNING
                self.cur = u
                return True
        self.cur = None
        return False

    def run_directed(self, u):
        self.state[u] = RUNNING
        self.cur = u


def name_arg(u):
    return -1 if u == "main" else u


@st.composite
def chains(draw, ctx):
    npools = draw(st.integers(1, 2))
    m = Model(npools, 0)
    budget = draw(st.integers(4, 28))
    maxunits = draw(st.integers(2, 6))
    nunits = 0
    unit_pool = {}
    finishing = False
    steps = 0
    while True:
        steps += 1
        if steps > 400:
            break
        cur = m.cur
        if cur is None:
            break
        if budget <= 0:
            finishing = True
        blocked = [u for u in m.state if m.state[u] == BLOCKED]
        others_alive = [u for u in m.state if u != "main" and m.state[u] != TERMINATED]
        if finishing:
            if blocked:
                m.emit("presume %d" % name_arg(blocked[0]))
                u = blocked[0]
                m.state[u] = READY
                m.q[m.pool[u]].append(u)
                continue
            if cur == "main":
                if others_alive:
                    m.emit("yield")
                    m.state[cur] = READY
                    m.q[m.pool[cur]].append(cur)
                    m.sched_next()
                    continue
                break
            # a unit simply ends
            m.state[cur] = TERMINATED
            m.sched_next()
            continue
        budget -= 1
        ready_in = {p: list(m.q[p]) for p in range(npools)}
        choices = ["yield", "work", "selfstate"]
        if nunits < maxunits:
            choices += ["createto", "create"]
        for p in range(npools):
            if ready_in[p]:
                choices += ["popyt", "popsusp"]
                if cur != "main" and ready_in[p][0] != "main":
                    choices.append("popexit")
        ready_units = [u for p in range(npools) for u in ready_in[p]]
        if ready_units:
            choices += ["tyt", "expect"]
        if blocked:
            choices += ["presume", "ryt", "rst", "expect"]
            if cur != "main" and any(b != "main" for b in blocked):
                choices.append("rexit")
        # the primary ULT never blocks itself unless somebody else is runnable to resume it
        can_block = any(m.state[u] in (READY,) for u in m.state if u != cur) or \
            any(m.q[p] for p in range(npools))
        if can_block:
            choices.append("susp")
        if cur != "main":
            choices += ["exit"] if draw(st.integers(0, 6)) == 0 else []
        k = draw(st.sampled_from(choices))
        if k == "work":
            m.emit("work 1")
        elif k == "selfstate":
            m.emit("selfstate")
        elif k == "expect":
            u = draw(st.sampled_from(ready_units + blocked))
            m.emit("expectstate %d %d" % (name_arg(u), m.state[u]))
        elif k == "yield":
            m.emit("yield")
            m.state[cur] = READY
            m.q[m.pool[cur]].append(cur)
            m.sched_next()
        elif k in ("create", "createto"):
            u = nunits
            nunits += 1
            p = draw(st.integers(0, npools - 1))
            unit_pool[u] = p
            m.prog[u] = []
            m.pool[u] = p
            m.emit("%s %d" % (k, u))
            if k == "create":
                m.state[u] = READY
                m.q[p].append(u)
            else:
                m.state[cur] = READY
                m.q[m.pool[cur]].append(cur)
                m.run_directed(u)
        elif k in ("popyt", "popsusp", "popexit"):
            ps = [p for p in range(npools) if ready_in[p] and
                  not (k == "popexit" and ready_in[p][0] == "main")]
            p = draw(st.sampled_from(ps))
            t = m.q[p].popleft()
            m.emit("%s %d %d" % (k, p, name_arg(t)) + (" 1" if t == "main" else ""))
            if k == "popyt":
                m.state[cur] = READY
                m.q[m.pool[cur]].append(cur)
            elif k == "popsusp":
                m.state[cur] = BLOCKED
            else:
                m.state[cur] = TERMINATED
            m.run_directed(t)
        elif k == "tyt":
            t = draw(st.sampled_from(ready_units))
            m.q[m.pool[t]].remove(t)
            m.emit("tyt %d" % name_arg(t))
            m.state[cur] = READY
            m.q[m.pool[cur]].append(cur)
            m.run_directed(t)
        elif k == "susp":
            m.emit("susp")
            m.state[cur] = BLOCKED
            if not m.sched_next():
                break
        elif k == "presume":
            t = draw(st.sampled_from(blocked))
            m.emit("presume %d" % name_arg(t))
            m.state[t] = READY
            m.q[m.pool[t]].append(t)
        elif k in ("ryt", "rst", "rexit"):
            cands = [b for b in blocked if not (k == "rexit" and b == "main")]
            t = draw(st.sampled_from(cands))
            m.emit("%s %d" % (k, name_arg(t)))
            if k == "ryt":
                m.state[cur] = READY
                m.q[m.pool[cur]].append(cur)
            elif k == "rst":
                m.state[cur] = BLOCKED
            else:
                m.state[cur] = TERMINATED
            m.run_directed(t)
        elif k == "exit":
            m.emit("exit")
            m.state[cur] = TERMINATED
            m.sched_next()
    if any(m.state[u] != TERMINATED for u in m.state if u != "main") or m.cur != "main":
        # generation ran out of steps in an unfinished state: fall back to a trivial case
        return ("cfg seed=1 native=%d hist=1\npool 0 kind=fifo access=mpmc\nxs 0 sched=default pools=0\n"
                "main : yield\nnote chains\nexpect main:0\n" % int(bool(ctx.get("native"))))
    lines = [draw(sched_line(ctx, hist=True, extra=" tick=1000"))]
    for p in range(npools):
        lines.append("pool %d kind=fifo access=%s" % (p, draw(st.sampled_from(["mpmc", "priv", "mpsc"]))))
    lines.append("xs 0 sched=%s pools=%s" % ("prio" if npools > 1 else
                                             draw(st.sampled_from(["basic", "prio"])),
                                             ",".join(map(str, range(npools)))))
    for u in range(nunits):
        lines.append("unit %d type=ult named=1 pool=%d : %s" %
                     (u, unit_pool[u], "; ".join(m.prog[u])))
    lines.append("main : " + "; ".join(m.prog["main"]))
    lines.append("note chains")
    lines.append("expect " + " ".join("%s:%d" % (("main" if u == "main" else "u%d" % u), pc)
                                       for u, pc in m.trace))
    return "\n".join(lines) + "\n"


@st.composite
def cases(draw, ctx):
    if ctx.get("variant") == "chains":
        return draw(chains(ctx))
    if ctx.get("variant") == "race":
        return draw(race(ctx))
    return draw(st.one_of(race(ctx), chains(ctx)))


def render(case, ctx):
    return case


def judge(text, res, ctx):
    if "note chains" not in text:
        return None
    exp = None
    for l in text.splitlines():
        if l.startswith("expect "):
            exp = l.split()[1:]
    if exp is None:
        return None
    got = []
    for h in res.hist:
        # h: step actor pc what v1 v2 v3
        if h[3] == "op":
            got.append("%s:%s" % (h[1], h[2]))
    if got != exp:
        n = 0
        while n < len(got) and n < len(exp) and got[n] == exp[n]:
            n += 1
        return ("order of (unit, op) events differs from the reference interpreter at position %d: "
                "expected %s, observed %s" % (n, exp[n:n + 4], got[n:n + 4]))
    return None


def classify(text, res, ctx):
    out = ["chains" if "note chains" in text else "race"]
    for k in ("resume_right_after_blocked", "directed_switches", "suspends", "create_to", "exits"):
        if stat(res, k):
            out.append(k)
    for k in ("popsusp", "ryt", "rst", "popexit", "rexit", "tyt", "popyt"):
        if k in text:
            out.append(k)
    return out


def nontrivial(text, res, ctx):
    if "note chains" in text:
        return stat(res, "directed_switches") + stat(res, "create_to") >= 4
    return stat(res, "resumes") >= 1 and ("\next " in text or "xs 1" in text)


PLAN = {
    "quick": [("coarse", 6, 300, "race"), ("coarse", 3, 400, "chains"), ("san", 2, 150, "chains"),
              ("nopool", 1, 150, "race"), ("san", 1, 100, "race"), ("native", 1, 300, "chains"),
              ("native", 2, 150, "race")],
    "thorough": [("coarse", 5, 6000, "race"), ("fine", 4, 3000, "race"), ("coarse", 2, 8000, "chains"),
                 ("san", 2, 3000, "chains"), ("nopool", 1, 2000, ""), ("native", 2, 3000, "")],
}
