"""C12 - work-unit life cycle: exit, cancel, auto-free and revive follow the state machine.

Generated: per unit a controller (primary ULT, a ULT or an external thread) applies a
history over {create, cancel, join, revive, free} to a named ULT or tasklet whose body
yields, checks its own state, may ABT_thread_exit or ABT_self_exit, may create and join a child, or is
started by ABT_self_suspend_to; cancel races with the start, the yields and the join;
observers on other streams / external threads sample ABT_thread_get_state meanwhile;
unnamed units exit or finish on their own.
Oracle (executor): a running unit always observes itself RUNNING; sampled states:
TERMINATED only after the unit finished, exited or was cancelled, and absorbing until a
revive; no state but TERMINATED once joined; no op runs after ABT_thread_exit; a cancelled
unit never gets past a scheduling point that began after ABT_thread_cancel returned and
never runs after its joiner was released; the joiner is released (deadlock / step-limit
oracle); every revive yields exactly one more start with the other function and a fresh
argument; ASan (no-mem-pool flavour) sees any double release of a descriptor.
Note: the property's expression omits RUNNING -> READY, which every yield performs by
documentation; it is accepted.
"""
from hypothesis import strategies as st
from gen.common import sched_line, simple_topology, stat

RULE = ("case = topology + per-unit life-cycle history + observers + schedule; non-trivial = "
        "a cancel issued while the target had started and not finished, or a cancel that beat "
        "the start, or >= 2 revive cycles of one unit; distinct = distinct case text")


@st.composite
def cases(draw, ctx):
    if ctx.get("variant") == "chains":
        # single-stream chains of directed switches with self-state checks
        from gen.c11 import chains
        return draw(chains(ctx))
    topo, npools, nxs = draw(simple_topology(max_xs=3, scheds=("basic", "prio", "randws"),
                                             pool_kinds=("fifo", "fifo", "fifo_wait", "randws")))
    lines = [draw(sched_line(ctx, extra=" tick=1000"))] + topo
    units, exts, main_ops, tail = [], [], [], []
    flag = 1
    for _ in range(draw(st.integers(1, 4))):
        kind = draw(st.sampled_from(["ult", "ult", "ult", "task"]))
        t = len(units)
        pool = draw(st.integers(0, npools - 1))
        body = []
        units.append(None)
        child = None
        if kind == "ult":
            for _ in range(draw(st.integers(0, 4))):
                c = draw(st.sampled_from(["yield", "yield", "selfstate", "work 2", "yieldn 3"]))
                body.append(c)
            extra = draw(st.sampled_from(["", "", "exit", "child"]))
            if extra == "exit":
                body += [draw(st.sampled_from(["exit", "selfexit"])), "work 1"]
            elif extra == "child":
                child = len(units)
                units.append("unit %d type=ult named=1 pool=%d : yieldn %d" %
                             (child, draw(st.integers(0, npools - 1)), draw(st.integers(0, 4))))
                body += ["create %d" % child, draw(st.sampled_from(["work 1", "yield"])),
                         "join %d" % child, "selfstate"]
            elif extra == "suspto":
                # the unit creates a helper with create_to; the helper pops it back and
                # starts it again with ABT_self_suspend_to, then the unit resumes the helper
                helper = len(units)
                units.append("unit %d type=ult named=1 pool=%d : popsusp %d %d; selfstate" %
                             (helper, pool, pool, t))
                body += ["createto %d" % helper, "selfstate", "presume %d" % helper]
        else:
            body = ["work %d" % draw(st.integers(1, 3)), "selfstate"]
        units[t] = "unit %d type=%s named=1 pool=%d : %s" % (t, kind, pool, "; ".join(body) or "nop")
        cycles = draw(st.integers(1, 3))
        no_revive = child is not None or "suspto" in " ".join(body) or "createto" in " ".join(body)
        if no_revive:
            cycles = 1
        ck = draw(st.sampled_from(["main", "ult", "ext"]))
        prog = []
        nobs = draw(st.sampled_from([0, 0, 1, 2]))
        obs_flags = []
        for c in range(cycles):
            if c == 0:
                prog.append("create %d" % t)
                for o in range(nobs):
                    f = flag
                    flag += 1
                    obs_flags.append(f)
                    prog.append("fset %d" % f)
            else:
                prog.append("revive %d %d" % (t, pool))
            d = draw(st.sampled_from(["", "", "work 2", "yield", "yieldn 2"]))
            if d and not (ck == "ext" and d.startswith("yield")):
                prog.append(d)
            if draw(st.integers(0, 2)) == 0 and "popsusp" not in " ".join(units[t + 1:]):
                prog.append("cancel %d" % t)
            if draw(st.booleans()):
                prog.append("sample %d" % t)
            prog.append("join %d" % t)
            prog.append("sample %d" % t)
        # observers may use the handle until they have set their flag
        done = []
        for o, f in enumerate(obs_flags):
            g = flag
            flag += 1
            done.append(g)
            oprog = ["fwait %d" % f] + ["sample %d" % t] * draw(st.integers(1, 5)) + ["fset %d" % g]
            exts.append(oprog)
        prog += ["fwait %d" % g for g in done]
        prog.append("free %d" % t)
        if ck == "main":
            tail += prog
        elif ck == "ext":
            exts.append(prog)
        else:
            c = len(units)
            units.append("unit %d type=ult named=0 pool=%d : %s" %
                         (c, draw(st.integers(0, npools - 1)), "; ".join(prog)))
            main_ops.append("create %d" % c)
    # a few unnamed units that end by themselves (auto-free) or exit
    for _ in range(draw(st.integers(0, 3))):
        u = len(units)
        k = draw(st.sampled_from(["ult", "task"]))
        body = ["work 1"]
        if k == "ult":
            body = [draw(st.sampled_from(["yield", "work 1", "yieldn 2"]))]
            if draw(st.booleans()):
                body += [draw(st.sampled_from(["exit", "selfexit"])), "work 1"]
        units.append("unit %d type=%s named=0 pool=%d : %s" %
                     (u, k, draw(st.integers(0, npools - 1)), "; ".join(body)))
        main_ops.append("create %d" % u)
    if len(exts) > 14:
        exts = exts[:14]
    for i, p in enumerate(exts):
        lines.append("ext %d : %s" % (i, "; ".join(p)))
    lines += units
    lines.append("main : " + "; ".join(main_ops + tail))
    return "\n".join(lines) + "\n"


def render(case, ctx):
    return case


def judge(text, res, ctx):
    if "note chains" in text:
        from gen.c11 import judge as j11
        return j11(text, res, ctx)
    return None


def classify(text, res, ctx):
    out = []
    for k in ("cancels", "cancel_while_running", "cancel_after_end", "joined_cancelled", "revives",
              "exits", "self_exits", "sample_terminated", "sample_blocked", "sample_ready", "sample_running",
              "directed_switches"):
        if stat(res, k):
            out.append(k)
    if "type=task" in text:
        out.append("tasklet")
    return out


def nontrivial(text, res, ctx):
    if "note chains" in text:
        return "selfstate" in text and stat(res, "directed_switches") >= 2
    return stat(res, "cancel_while_running") >= 1 or stat(res, "joined_cancelled") >= 1 or \
        stat(res, "revives") >= 2


PLAN = {
    "quick": [("coarse", 8, 300), ("san", 2, 100), ("nopool", 3, 100), ("native", 2, 150),
              ("native", 1, 400, "chains")],
    "thorough": [("coarse", 5, 6000), ("fine", 5, 3000), ("san", 1, 1500), ("nopool", 3, 1500),
                 ("native", 1, 2500), ("san", 1, 5000, "chains")],
}
