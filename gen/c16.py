"""C16 - work-unit-local storage: per-unit key -> value map, exactly-once destructors.

Generated: ABT_KEY_TABLE_SIZE in {1,2,4,8,64}; 1..40 keys with / without destructor; ULTs,
tasklets and the primary ULT as owners; sequences of ABT_key_set/get,
ABT_self_set/get_specific on the own map and ABT_thread_set/get_specific from the primary
ULT or another unit on a named owner (also while the owner runs, also racing with the
owner's first set, which creates the table); NULL values and overwrites; then join / free
/ automatic free / ABT_finalize; named owners are also joined and revived (the map
survives a revive).
Oracle (executor, exec/ops_key.h): every stored value is a record naming (owner, key,
sequence number); a get must return the record of a set that is not superseded under the
interval order of the calls (exact for sequential use; either value for racing sets), and
never a record of another unit or key; after everything was freed each key's destructor
ran exactly once for the final non-NULL value of each (unit, key) and never for
overwritten values, NULL values or keys without destructor.
"""
from hypothesis import strategies as st
from gen.common import sched_line, simple_topology, stat

RULE = ("case = key-table size + keys (destructor?) + owners + set/get sequences (own and remote) "
        "+ schedule; non-trivial = more keys than table slots (chains) and at least 9 sets in total "
        "(a key-table element block holds few entries, so the table spills); distinct = distinct "
        "case text")


@st.composite
def cases(draw, ctx):
    topo, npools, nxs = draw(simple_topology(max_xs=3))
    tsize = draw(st.sampled_from([1, 2, 4, 8, 64]))
    nkey = draw(st.sampled_from([1, 2, 3, 5, 9, 17, 40]))
    lines = [draw(sched_line(ctx, extra=" tick=1000"))]
    lines.append("env ABT_KEY_TABLE_SIZE=%d" % tsize)
    lines += topo
    for k in range(nkey):
        lines.append("key %d dtor=%d" % (k, int(draw(st.booleans()))))
    units, main_ops, tail = [], [], []
    nown = draw(st.integers(1, 4))
    keyst = st.integers(0, nkey - 1)

    def own_ops(n, ult):
        ops = []
        for _ in range(n):
            c = draw(st.sampled_from(["set", "set", "get", "sset", "sget", "null", "y"]))
            k = draw(keyst)
            if c == "set":
                ops.append("keyset %d" % k)
            elif c == "null":
                ops.append("keyset %d 1" % k)
            elif c == "get":
                ops.append("keyget %d" % k)
            elif c == "sset":
                ops.append("selfset %d" % k)
            elif c == "sget":
                ops.append("selfget %d" % k)
            elif ult:
                ops.append("yield")
        return ops

    remote_targets = []
    for _ in range(nown):
        u = len(units)
        kind = draw(st.sampled_from(["ult", "ult", "task"]))
        named = draw(st.booleans())
        ops = own_ops(draw(st.integers(1, 14)), kind == "ult")
        # owners that also carry the library's own per-unit entries (migration data, created
        # by a callback in the attribute or by ABT_thread_set_callback): user keys and
        # internal keys share one table and must never alias
        cb = draw(st.sampled_from([0, 0, 1, 2])) if kind == "ult" else 0
        units.append("unit %d type=%s named=%d pool=%d cb=%d : %s" %
                     (u, kind, int(named), draw(st.integers(0, npools - 1)), 1 if cb == 1 else 0,
                      "; ".join(ops) or "nop"))
        main_ops.append("create %d" % u)
        if cb == 2 and named:
            main_ops.append("setcb %d" % u)
        if named:
            remote_targets.append(u)
    # remote access by the primary ULT and by helper units
    for t in remote_targets:
        for _ in range(draw(st.integers(0, 5))):
            k = draw(keyst)
            c = draw(st.sampled_from(["tset", "tset", "tget", "tnull"]))
            op = {"tset": "tset %d %d" % (t, k), "tget": "tget %d %d" % (t, k),
                  "tnull": "tset %d %d 1" % (t, k)}[c]
            if draw(st.booleans()):
                tail.append(op)
            else:
                h = len(units)
                units.append("unit %d type=%s named=0 pool=%d : %s" %
                             (h, draw(st.sampled_from(["ult", "task"])),
                              draw(st.integers(0, npools - 1)), op))
                main_ops.append("create %d" % h)
    tail = own_ops(draw(st.integers(0, 8)), True) + tail
    tail = list(draw(st.permutations(tail))) if len(tail) < 12 else tail
    # a named owner that is joined and revived keeps its map: the values of its previous
    # life are still there (and their destructors still run exactly once at the end)
    for t in remote_targets:
        for _ in range(draw(st.sampled_from([0, 0, 1, 1, 2]))):
            tail += ["join %d" % t]
            tail += ["tget %d %d" % (t, draw(keyst)) for _ in range(draw(st.integers(0, 2)))]
            tail += ["revive %d %d" % (t, draw(st.integers(0, npools - 1)))]
            if draw(st.booleans()):
                tail += ["tset %d %d" % (t, draw(keyst))]
    lines += units
    lines.append("main : " + "; ".join(main_ops + tail))
    lines.append("note tsize=%d nkey=%d" % (tsize, nkey))
    return "\n".join(lines) + "\n"


def render(case, ctx):
    return case


def judge(text, res, ctx):
    return None


def classify(text, res, ctx):
    out = []
    for k in ("key_remote_sets", "key_dtor_calls", "revives"):
        if stat(res, k):
            out.append(k)
    if "cb=1" in text or "setcb" in text:
        out.append("owner_with_migration_data")
    import re
    m = re.search(r"note tsize=(\d+) nkey=(\d+)", text)
    if m and int(m.group(2)) > int(m.group(1)):
        out.append("chained_slots")
    if "type=task" in text:
        out.append("tasklet")
    return out


def nontrivial(text, res, ctx):
    import re
    m = re.search(r"note tsize=(\d+) nkey=(\d+)", text)
    return bool(m) and int(m.group(2)) > int(m.group(1)) and stat(res, "key_sets") >= 9


PLAN = {
    "quick": [("coarse", 9, 300), ("san", 3, 100), ("nopool", 2, 100), ("native", 2, 150)],
    "thorough": [("coarse", 5, 6000), ("fine", 6, 3000), ("san", 2, 1500), ("nopool", 2, 1500),
                 ("native", 1, 2500)],
}
