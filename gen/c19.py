"""C19 - timed waits respect their deadline and never damage the waiter queue.

Virtual clock (dsched).  Phase-structured condition-variable programs whose outcome
is exact:
  phase A  w in 1..6 waiters enqueue on one cond in a generated order, each untimed or
           timed with a deadline that is past / near (1..5 ms) / far, ULT or external;
  phase B  the orchestrator advances the virtual clock to T (some deadlines expire at once,
           in deadline order) and then lets virtual time flow until exactly the waiters
           with a finite deadline have returned ABT_ERR_COND_TIMEDOUT;
  phase C  s signals, after the k-th of which exactly min(k, remaining) waiters must have
           returned ABT_SUCCESS (a stale entry of a timed-out waiter that swallows a
           signal, or a waiter cut out of the queue, leaves the orchestrator waiting for
           ever = deadlock / step-limit oracle), then a broadcast releasing the rest.
Inline oracle (exec/ops_sync.h): TIMEDOUT only with now >= deadline; SUCCESS only with a
credit; holder bookkeeping of the mutex on every return; cond free finds an empty queue.
A racing variant issues signals and clock advances without phase barriers (weaker
oracle: success needs a credit, TIMEDOUT needs an expired deadline, nobody is lost).
Pool part: blocking pops (see C07 ops) against pushes at generated virtual instants.
"""
from hypothesis import strategies as st
from gen.common import sched_line, simple_topology, stat

RULE = ("case = topology + ordered list of waiters (kind, timed?, deadline) + clock advance T + "
        "number of signals + schedule; non-trivial = at least one waiter timed out while "
        "another waiter was queued behind or ahead of it (>= 2 waiters, >= 1 timeout, >= 1 "
        "success) ; distinct = distinct case text")

FAR = 1000000000
CREG, COK, CTO = 32, 33, 34   # executor variable slots of cond 0


@st.composite
def phased(draw, ctx):
    topo, npools, nxs = draw(simple_topology(max_xs=3))
    lines = [draw(sched_line(ctx))] + topo
    lines.append("mutex 0 kind=%s" % draw(st.sampled_from(["dyn", "static", "rec"])))
    lines.append("cond 0 kind=%s" % draw(st.sampled_from(["dyn", "static"])))
    w = draw(st.integers(1, 6))
    T = draw(st.sampled_from([0, 2, 3, 6, 6]))
    units, exts, main = [], [], []
    creates = []
    timeouts = 0
    for i in range(w):
        kind = draw(st.sampled_from(["ult", "ult", "ext"]))
        timed = draw(st.sampled_from(["no", "past", "near", "near", "far"]))
        if timed == "no":
            wait = "cwait 0 0"
        else:
            dl = {"past": -5, "near": draw(st.integers(1, 5)), "far": FAR}[timed]
            wait = "ctimedwait 0 0 %d" % dl
            if timed != "far":
                timeouts += 1   # time keeps flowing in phase B until all finite deadlines expired
        prog = ["fwait %d" % (i + 1), "lock 0", wait, "unlock 0"]
        if kind == "ext":
            exts.append(prog)
        else:
            u = len(units)
            units.append("unit %d type=ult named=%d pool=%d : %s" %
                         (u, int(draw(st.booleans())), draw(st.integers(0, npools - 1)),
                          "; ".join(prog)))
            creates.append("create %d" % u)
    main += creates
    for i in range(w):
        main += ["fset %d" % (i + 1), "awaitvar %d %d" % (CREG, i + 1), "lock 0", "unlock 0"]
    if T > 0:
        main.append("advance %d" % (T * 1000))
    main.append("awaitvar_t %d %d 50" % (CTO, timeouts))
    remaining = w - timeouts
    s = draw(st.integers(0, w))
    for k in range(s):
        main += ["lock 0", "csignal 0 0", "unlock 0",
                 "awaitvar %d %d" % (COK, min(k + 1, remaining))]
    main += ["lock 0", "cbroadcast 0 0", "unlock 0", "awaitvar %d %d" % (COK, remaining)]
    for i, p in enumerate(exts):
        lines.append("ext %d : %s" % (i, "; ".join(p)))
    lines += units
    lines.append("main : " + "; ".join(main))
    lines.append("expect timeouts=%d successes=%d" % (timeouts, remaining))
    return "\n".join(lines) + "\n"


@st.composite
def racing(draw, ctx):
    topo, npools, nxs = draw(simple_topology(max_xs=3))
    lines = [draw(sched_line(ctx))] + topo
    lines.append("mutex 0 kind=dyn")
    lines.append("cond 0 kind=dyn")
    w = draw(st.integers(2, 5))
    units, exts, creates = [], [], []
    total = 0
    for i in range(w):
        kind = draw(st.sampled_from(["ult", "ult", "ext"]))
        rounds = draw(st.integers(1, 2))
        prog = []
        for _ in range(rounds):
            timed = draw(st.sampled_from(["no", "near", "near", "far"]))
            if timed == "no":
                wait = "cwait 0 0"
            else:
                wait = "ctimedwait 0 0 %d" % (draw(st.integers(1, 4)) if timed == "near" else FAR)
            prog += ["lock 0", wait, "unlock 0"]
        total += rounds
        if kind == "ext":
            exts.append(prog)
        else:
            u = len(units)
            units.append("unit %d type=ult named=0 pool=%d : %s" %
                         (u, draw(st.integers(0, npools - 1)), "; ".join(prog)))
            creates.append("create %d" % u)
    sk = draw(st.sampled_from(["ult", "ext"]))
    sprog = ["csigloop 0 0 %d %d" % (total, (1 << 17) | draw(st.integers(0, 2 ** 16 - 1)))]
    if sk == "ext":
        exts.append(sprog)
    else:
        u = len(units)
        units.append("unit %d type=ult named=0 pool=%d : %s" %
                     (u, draw(st.integers(0, npools - 1)), "; ".join(sprog)))
        creates.append("create %d" % u)
    main = list(creates)
    for _ in range(draw(st.integers(2, 9))):
        main += ["yieldn %d" % draw(st.integers(1, 6)), "advance %d" % draw(st.integers(100, 900))]
    for i, p in enumerate(exts):
        lines.append("ext %d : %s" % (i, "; ".join(p)))
    lines += units
    lines.append("main : " + "; ".join(main))
    lines.append("note racing")
    return "\n".join(lines) + "\n"


@st.composite
def edge(draw, ctx):
    """A signal issued at (virtually) the same instant as a deadline: one timed waiter W
    among untimed ones; the orchestrator advances the clock to a few microseconds before
    W's deadline and signals at once, so that the signaller's critical section falls into
    W's time-out path.  Whoever wins, that one signal - issued while an untimed waiter was
    certainly queued - must produce exactly one successful return (W's if it was dequeued,
    otherwise the next waiter's): the orchestrator waits for it (lost signal = hang), and
    the credit accounting flags a second one."""
    topo, npools, nxs = draw(simple_topology(max_xs=3))
    lines = [draw(sched_line(ctx, extra=" tick=%d" % draw(st.sampled_from([1, 1, 4])))),
             ] + topo
    lines.append("mutex 0 kind=%s" % draw(st.sampled_from(["dyn", "static", "rec"])))
    lines.append("cond 0 kind=%s" % draw(st.sampled_from(["dyn", "static"])))
    w = draw(st.integers(2, 5))
    wi = draw(st.integers(0, w - 1))          # position of the timed waiter in the queue
    D = draw(st.integers(1, 4))               # ms
    delta = draw(st.sampled_from([0, 0, 1, 1, 2, 3, 5, 8, 20]))
    units, exts, creates, main = [], [], [], []
    for i in range(w):
        kind = draw(st.sampled_from(["ult", "ult", "ext"]))
        wait = "ctimedwait 0 0 %d" % D if i == wi else \
            draw(st.sampled_from(["cwait 0 0", "cwait 0 0", "ctimedwait 0 0 %d" % FAR]))
        prog = ["fwait %d" % (i + 1), "lock 0", wait, "unlock 0"]
        if kind == "ext":
            exts.append(prog)
        else:
            u = len(units)
            units.append("unit %d type=ult named=%d pool=%d : %s" %
                         (u, int(draw(st.booleans())), draw(st.integers(0, npools - 1)), "; ".join(prog)))
            creates.append("create %d" % u)
    main += creates
    for i in range(w):
        main += ["fset %d" % (i + 1), "awaitvar %d %d" % (CREG, i + 1), "lock 0", "unlock 0"]
    main += ["advance %d" % max(0, D * 1000 - delta), "lock 0", "csignal 0 0", "unlock 0",
             "awaitvar_t %d 1 5" % COK]
    if draw(st.booleans()):
        main += ["lock 0", "csignal 0 0", "unlock 0", "awaitvar_t %d 2 5" % COK] if w >= 3 else []
    main += ["lock 0", "cbroadcast 0 0", "unlock 0"]
    for i, p in enumerate(exts):
        lines.append("ext %d : %s" % (i, "; ".join(p)))
    lines += units
    lines.append("main : " + "; ".join(main))
    lines.append("note edge")
    return "\n".join(lines) + "\n"


@st.composite
def cases(draw, ctx):
    if ctx.get("variant") == "edge":
        return draw(edge(ctx))
    if ctx.get("variant") == "pool":
        # blocking pops (pop_wait / pop_timedwait, virtual timeouts) racing with pushes:
        # the histories of gen/c07.py, judged for linearizability (no unit lost) and
        # for the bounded return of empty-handed blocking pops (executor)
        from gen.c07 import cases as c07cases
        return draw(c07cases(ctx))
    if ctx.get("native"):
        return draw(phased_native(ctx))
    return draw(st.one_of(phased(ctx), racing(ctx)))


@st.composite
def phased_native(draw, ctx):
    """Real clock: only past and far deadlines have a schedule-independent outcome."""
    lines = [draw(sched_line(ctx)), "pool 0 kind=fifo access=mpmc", "xs 0 sched=default pools=0",
             "pool 1 kind=fifo access=mpmc", "xs 1 sched=basic pools=1",
             "mutex 0 kind=dyn", "cond 0 kind=dyn"]
    w = draw(st.integers(1, 5))
    units, exts, creates, main = [], [], [], []
    timeouts = 0
    for i in range(w):
        kind = draw(st.sampled_from(["ult", "ext"]))
        timed = draw(st.sampled_from(["no", "past", "far"]))
        wait = "cwait 0 0" if timed == "no" else "ctimedwait 0 0 %d" % (-5 if timed == "past" else FAR)
        timeouts += timed == "past"
        prog = ["fwait %d" % (i + 1), "lock 0", wait, "unlock 0"]
        if kind == "ext":
            exts.append(prog)
        else:
            u = len(units)
            units.append("unit %d type=ult named=0 pool=%d : %s" %
                         (u, draw(st.integers(0, 1)), "; ".join(prog)))
            creates.append("create %d" % u)
    main += creates
    for i in range(w):
        main += ["fset %d" % (i + 1), "awaitvar %d %d" % (CREG, i + 1), "lock 0", "unlock 0"]
    main.append("awaitvar %d %d" % (CTO, timeouts))
    remaining = w - timeouts
    for k in range(draw(st.integers(0, w))):
        main += ["lock 0", "csignal 0 0", "unlock 0", "awaitvar %d %d" % (COK, min(k + 1, remaining))]
    main += ["lock 0", "cbroadcast 0 0", "unlock 0", "awaitvar %d %d" % (COK, remaining)]
    for i, p in enumerate(exts):
        lines.append("ext %d : %s" % (i, "; ".join(p)))
    lines += units
    lines.append("main : " + "; ".join(main))
    return "\n".join(lines) + "\n"


def render(case, ctx):
    return case


def judge(text, res, ctx):
    import re
    if "note kind=" in text:
        from gen.c07 import judge as j07
        return j07(text, res, ctx)
    m = re.search(r"expect timeouts=(\d+) successes=(\d+)", text)
    if m:
        to = res.stats.get("cond_timedout", 0)
        if to != int(m.group(1)):
            return "expected %s timed-out waiters, observed %d" % (m.group(1), to)
    return None


def classify(text, res, ctx):
    if "note kind=" in text:
        return ["pool_blocking_pops"] + (["pool_pops_empty"] if stat(res, "pool_pops_empty") else [])
    out = ["racing" if "note racing" in text else "edge" if "note edge" in text else "phased"]
    for k in ("cond_timedout", "cond_credit_retired", "signal_no_waiter"):
        if stat(res, k):
            out.append(k)
    return out


def nontrivial(text, res, ctx):
    if "note kind=" in text:
        return "ppop 1 3" in text or "ppop 1 4" in text or "ppop 1 5" in text
    return (stat(res, "cond_timedout") >= 1 and text.count("wait 0 0") >= 2 and
            (stat(res, "signals") + stat(res, "broadcasts")) >= 1)


PLAN = {
    "quick": [("coarse", 4, 500, "edge"), ("coarse", 7, 500), ("san", 2, 150), ("native", 2, 150), ("coarse", 2, 300, "pool"), ("san", 1, 150, "pool")],
    "thorough": [("coarse", 4, 8000, "edge"), ("fine", 2, 3000, "edge"), ("coarse", 5, 5000), ("fine", 5, 3000), ("san", 2, 1500), ("nopool", 1, 1000),
                 ("native", 1, 1500), ("fine", 1, 3000, "pool"), ("san", 1, 2000, "pool")],
}
