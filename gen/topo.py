"""Generated stream/scheduler/pool topologies and the placement rules that keep
generated programs inside the documented access-mode contracts.

Pool access modes (doc of ABT_pool_access): PRIV - only the owning stream touches
it; SPSC/MPSC - one consumer stream; SPMC/MPMC - several; S* - a single producer.
A unit that yields, or blocks and is resumed, is re-pushed by whoever runs /
resumes it, so:
  'local'  (priv, spsc): creators and resumers must run on the consuming stream;
  'mpsc'  : any producers, one consumer;
  'spmc'  : one producing actor; units in it run to completion (no re-push);
  'mpmc'  : anything.
"""
from hypothesis import strategies as st

POOL_KINDS = ["fifo", "fifo", "fifo_wait", "randws"]
SCHEDS = ["basic", "basic", "prio", "randws", "basic_wait"]


class Topo:
    def __init__(self):
        self.pools = []   # dict(kind, access, sub)
        self.xs = []      # dict(sched, pools)
        self.subs = []    # stacked schedulers: dict(sched, pools, host)

    def consumers(self, p):
        return [i for i, x in enumerate(self.xs) if p in x["pools"]]

    def home(self, p):
        c = self.consumers(p)
        return c[0] if len(c) == 1 else None

    def cls(self, p):
        a = self.pools[p]["access"]
        return {"priv": "local", "spsc": "local", "mpsc": "mpsc", "spmc": "spmc",
                "mpmc": "mpmc"}[a]

    def lines(self):
        out = []
        for i, p in enumerate(self.pools):
            out.append("pool %d kind=%s access=%s" % (i, p["kind"], p["access"]))
        for i, x in enumerate(self.xs):
            out.append("xs %d sched=%s pools=%s" % (i, x["sched"],
                                                    ",".join(map(str, x["pools"]))))
        for i, s in enumerate(self.subs):
            out.append("sub %d sched=%s pools=%s" % (i, s["sched"],
                                                     ",".join(map(str, s["pools"]))))
        return out

    def last_pool_of(self, xi):
        return self.xs[xi]["pools"][-1]

    def poll_safe(self, p, target_pool):
        """True if a ULT in pool p may yield-poll for something that needs a unit
        of target_pool to run.  BASIC/BASIC_WAIT sort their pools by access mode,
        PRIO scans in the given order, RANDWS prefers its first pool - and all of
        them restart the scan after every unit, so a yielding poller can starve
        the other pools of its own scheduler for ever.  Safe cases: the two pools
        share no stream, or every stream serving p has only that pool."""
        # a RANDWS scheduler steals from its secondary pools at the *tail* of a RANDWS
        # pool, which is where a yielding poller has just been pushed: it can starve
        # everything else in that pool
        for x in self.consumers(p):
            if self.xs[x]["sched"] == "randws" and len(self.xs[x]["pools"]) > 1 and \
                    self.pools[p]["kind"] == "randws":
                return False
        if p == target_pool:
            return True
        if self.pools[target_pool]["sub"] is not None:
            return False
        if not (set(self.consumers(p)) & set(self.consumers(target_pool))):
            return True
        return all(len(self.xs[x]["pools"]) == 1 for x in self.consumers(p))


@st.composite
def topologies(draw, max_xs=4, allow_local=True, allow_shared=True, allow_subs=True,
               primary_default=None, scheds=SCHEDS, pool_kinds=POOL_KINDS):
    t = Topo()
    nxs = draw(st.integers(1, max_xs))
    shared = []   # pools that may be given to further streams
    for xi in range(nxs):
        if xi == 0 and (primary_default if primary_default is not None
                        else draw(st.booleans())):
            t.pools.append({"kind": "fifo", "access": "mpmc", "sub": None})
            t.xs.append({"sched": "default", "pools": [len(t.pools) - 1]})
            continue
        npl = draw(st.sampled_from([1, 1, 2, 3]))
        pls = []
        for _ in range(npl):
            if allow_shared and shared and draw(st.integers(0, 3)) == 0 and not (xi == 0 and not pls):
                cand = [p for p in shared if p not in pls]
                if cand:
                    pls.append(draw(st.sampled_from(cand)))
                    continue
            kind = draw(st.sampled_from(pool_kinds))
            # the pool the primary ULT lives in is never shared: a primary ULT
            # popped by another stream could not call ABT_finalize
            will_share = allow_shared and draw(st.integers(0, 3)) == 0 and not (xi == 0 and not pls)
            if will_share:
                access = draw(st.sampled_from(["mpmc", "mpmc", "spmc"]))
            else:
                accs = ["mpmc", "mpsc", "mpsc"]
                # the primary ULT lives in the first pool of stream 0 and is
                # resumed by other streams (joins, eventuals): never 'local'
                # unless stream 0 is alone
                if allow_local and not (xi == 0 and not pls and nxs > 1):
                    accs += ["priv", "spsc"]
                access = draw(st.sampled_from(accs))
            t.pools.append({"kind": kind, "access": access, "sub": None})
            p = len(t.pools) - 1
            pls.append(p)
            if will_share:
                shared.append(p)
        t.xs.append({"sched": draw(st.sampled_from(scheds)), "pools": pls})
    # an spmc/mpmc pool used by a single stream is legal as well
    if allow_subs and draw(st.integers(0, 3)) == 0:
        for _ in range(draw(st.integers(1, 2))):
            npl = draw(st.integers(1, 2))
            pls = []
            for _ in range(npl):
                t.pools.append({"kind": draw(st.sampled_from(["fifo", "fifo", "randws"])),
                                "access": draw(st.sampled_from(["mpmc", "mpsc"])), "sub": len(t.subs)})
                pls.append(len(t.pools) - 1)
            hosts = [p for p in range(len(t.pools)) if t.pools[p]["sub"] is None
                     and t.cls(p) in ("mpmc", "mpsc")]
            if not hosts:
                for p in pls:
                    t.pools.pop()
                break
            t.subs.append({"sched": draw(st.sampled_from(["basic", "prio", "randws"])),
                           "pools": pls, "host": draw(st.sampled_from(hosts))})
    return t
