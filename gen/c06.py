"""C06 - stream join/free and ABT_finalize wait for all work, then terminate.

Generated: programs that do NOT join their (unnamed) units.  Units yield, take a mutex,
create children and block on eventuals whose setters are external threads (released by a
flag right before the joins start), units on other streams, or earlier units; the primary
ULT then joins / frees the secondary streams in a generated order (an external thread may
issue some of the joins), the rest is joined at tear-down, and ABT_finalize has to run
whatever is left on the primary stream.
Oracle (executor): when ABT_xstream_join/free of stream X returns, every unit whose pool
is served only by X (among streams not yet joined) has ended and X is TERMINATED; after
ABT_finalize every unit has run exactly once; the calls return (deadlock / step-limit
oracle); the pools' total_size never shows a negative blocked-unit count.
Soundness: all creations into a stream's pools happen-before its join request unless the
creator certainly runs on that stream; eventual setters never block and their release
flags are set before the first join; joins are issued by the primary ULT or an external
thread only.
"""
from hypothesis import strategies as st
from gen.common import sched_line, stat
from gen.topo import topologies

RULE = ("variant yieldto: case = streams with 2-3 pools + a ULT that yields to every unit of the other pools + join; non-trivial = >= 1 directed switch; otherwise: case = topology + unjoined units (yield / mutex / eventual-wait bodies, children) + "
        "setters (external threads, units) + join order + schedule; non-trivial = some "
        "ABT_xstream_join/free was issued while a unit of that stream had not finished "
        "(counter xsjoin_with_pending_units) ; distinct = distinct case text")

EXEC_ENV = {"ASAN_OPTIONS": "exitcode=21:detect_leaks=0:allocator_may_return_null=1"}


@st.composite
def yieldto_cases(draw, ctx):
    """A stream must also terminate after units left its pools through the side door:
    ABT_thread_yield_to / ABT_pool_remove take a READY unit out of the middle of a pool.
    One or two secondary streams with a fixed-order scheduler over two or three pools; a
    ULT in the first pool waits (by yielding: the scheduler restarts its scan at the first
    pool after every unit, so nothing behind it runs) until the primary ULT has created its
    targets in the other pools, then yields to them one after the other; nothing is pushed
    afterwards, and the stream is joined."""
    lines = [draw(sched_line(ctx, extra=" tick=10000 drain=0"))]
    lines += ["pool 0 kind=fifo access=mpmc", "xs 0 sched=default pools=0"]
    nxs = draw(st.integers(1, 2))
    units, main, joins = [], [], []
    np_ = 1
    for x in range(1, nxs + 1):
        k = draw(st.integers(2, 3))
        kind = draw(st.sampled_from(["fifo", "fifo", "fifo_wait", "randws"]))
        acc = draw(st.sampled_from(["mpmc", "mpsc"]))
        pools = list(range(np_, np_ + k))
        np_ += k
        for p in pools:
            lines.append("pool %d kind=%s access=%s" % (p, kind, acc))
        sched = "prio"   # scans its pools in the given order and restarts after every unit
        lines.append("xs %d sched=%s pools=%s" % (x, sched, ",".join(map(str, pools))))
        a = len(units)
        targets = []
        for p in pools[1:]:
            for _ in range(draw(st.integers(1, 2))):
                targets.append((a + 1 + len(targets), p))
        # the targets are created only once the yielder is running and polling in the first
        # pool (flag 10+x): a scheduler that finds the first pool empty during its scan could
        # otherwise run a target before the yielder got to it (yield_to needs a READY target)
        prog = ["fset %d" % (10 + x), "fwait %d" % x] + \
            ["tyt %d" % tu for tu, _ in draw(st.permutations(targets))]
        if draw(st.booleans()):
            # the last yield_to is made with a migration request pending (to the primary
            # stream's pool): the request is served inside the switch, and the blocked
            # count taken for the yield_to must be given back to the pool it came from
            prog.insert(len(prog) - 1, "migpool -1 0")
        elif draw(st.booleans()):
            prog.append("work 1")
        units.append("unit %d type=ult named=0 pool=%d : %s" % (a, pools[0], "; ".join(prog)))
        main.append("create %d" % a)
        main.append("fwait %d" % (10 + x))
        for tu, p in targets:
            units.append("unit %d type=ult named=1 pool=%d : %s" %   # (yield_to needs a handle)
                         (tu, p, draw(st.sampled_from(["nop", "work 1", "work 2"]))))
            main.append("create %d" % tu)
        main.append("fset %d" % x)
        joins.append("%s %d" % (draw(st.sampled_from(["xsjoin", "xsjoin", "xsfree"])), x))
    lines += units
    lines.append("main : " + "; ".join(main + joins))
    lines.append("note yieldto")
    return "\n".join(lines) + "\n"


@st.composite
def waitjoin_cases(draw, ctx):
    """A stream that sleeps in pop_wait is joined while its only work - ULTs blocked on an
    eventual - is being resumed from the primary stream: the first resumed ULT is popped
    and finishes at once, the scheduler looks for remaining work while the second one is
    between "pushed" and "no longer counted as blocked"."""
    ns = draw(st.integers(1, 2))
    if ctx.get("native") or draw(st.integers(0, 4)) == 0:
        lines = [draw(sched_line(ctx, extra=" tick=10000 drain=0"))]
    else:
        lines = ["cfg seed=%d strat=pct d=%d pctlen=%d tick=10000 drain=0" %
                 (draw(st.integers(0, 2 ** 31 - 1)), draw(st.integers(1, 3)),
                  draw(st.sampled_from([2000, 3500, 5000])))]
    lines += ["pool 0 kind=fifo access=mpmc", "xs 0 sched=default pools=0"]
    units, main, joins = [], [], []
    flag = 1
    for x in range(1, ns + 1):
        lines.append("pool %d kind=%s access=%s" % (x, draw(st.sampled_from(["fifo_wait", "fifo_wait", "fifo"])),
                                                   draw(st.sampled_from(["mpmc", "mpsc"]))))
        lines.append("xs %d sched=%s pools=%d" % (x, draw(st.sampled_from(["basic_wait", "basic_wait", "basic"])), x))
    lines.append("eventual 0 nbytes=0")
    waits = []
    for x in range(1, ns + 1):
        for _ in range(draw(st.integers(2, 4))):
            u = len(units)
            tail = draw(st.sampled_from([[], [], ["work 1"], ["yield"]]))
            units.append("unit %d type=ult named=0 pool=%d : %s" %
                         (u, x, "; ".join(["fset %d" % flag, "evwait 0"] + tail)))
            main.append("create %d" % u)
            waits.append("fwait %d" % flag)
            flag += 1
    main += waits + ["yieldn %d" % draw(st.integers(1, 4))]
    s_ = len(units)
    units.append("unit %d type=%s named=0 pool=0 : %s" %
                 (s_, draw(st.sampled_from(["task", "ult"])),
                  "; ".join(draw(st.sampled_from([[], ["work 1"], ["work 3"]])) + ["evset 0 0"])))
    main.append("create %d" % s_)
    for x in draw(st.permutations(list(range(1, ns + 1)))):
        main.append("%s %d" % (draw(st.sampled_from(["xsjoin", "xsjoin", "xsfree"])), x))
    lines += units
    lines.append("main : " + "; ".join(main))
    lines.append("note waitjoin")
    return "\n".join(lines) + "\n"


@st.composite
def cases(draw, ctx):
    if ctx.get("variant") == "waitjoin":
        return draw(waitjoin_cases(ctx))
    if ctx.get("variant") == "stacked":
        # stacked schedulers: the hosting stream is joined while the stacked scheduler (and
        # the units in its pools) may still be waiting in the host's pool
        from gen import c01
        text = draw(c01.stacked_cases(ctx))
        lines = text.splitlines()
        nxs = sum(1 for l in lines if l.startswith("xs "))
        out = []
        for l in lines:
            if l.startswith("cfg "):
                l += " drain=0"
            if l.startswith("main : "):
                for x in draw(st.permutations(list(range(1, nxs)))):
                    if draw(st.integers(0, 3)) > 0:
                        l += "; %s %d" % (draw(st.sampled_from(["xsjoin", "xsjoin", "xsfree"])), x)
            out.append(l)
        return "\n".join(out) + "\nnote c06-stacked\n"
    if ctx.get("variant") == "resumerace":
        # suspended ULTs resumed from other threads while their stream is being joined
        from gen import c11
        return draw(c11.race(ctx)) + "note c06-resumerace\n"
    if ctx.get("variant") == "yieldto":
        return draw(yieldto_cases(ctx))
    return draw(cases_main(ctx))


@st.composite
def cases_main(draw, ctx):
    t = draw(topologies(max_xs=4, allow_subs=False))
    nxs = len(t.xs)
    main_local = t.cls(t.xs[0]["pools"][0]) == "local"
    next_ = 0 if main_local else draw(st.sampled_from([0, 1, 1, 2]))
    nev = draw(st.integers(0, 3))
    use_mutex = draw(st.booleans())
    nunits = draw(st.integers(2, 14))
    units = []       # dict(idx,kind,pool,ops,creates)
    main_creates = []
    ext_progs = [[] for _ in range(next_)]
    spmc_owner = {}

    def loc_of(u):
        return t.home(u["pool"])

    for ui in range(nunits):
        kind = draw(st.sampled_from(["ult", "ult", "ult", "task"]))
        # creator: main, or an earlier unit that certainly runs on the target stream
        cands = []
        for p in range(len(t.pools)):
            c = t.cls(p)
            if c in ("mpmc", "mpsc"):
                cands.append(("main", p))
            elif c == "local" and t.home(p) == 0:
                cands.append(("main", p))
            elif c == "spmc" and spmc_owner.get(p, "main") == "main":
                cands.append(("main", p))
        for pu in units:
            if pu["kind"] == "task" and draw(st.booleans()):
                continue
            l = loc_of(pu)
            if l is None:
                continue
            for p in range(len(t.pools)):
                if t.consumers(p) == [l] and t.cls(p) != "spmc":
                    cands.append((pu["idx"], p))
        cr, p = draw(st.sampled_from(cands))
        if t.cls(p) == "spmc":
            spmc_owner[p] = "main"
        u = {"idx": ui, "kind": kind, "pool": p, "ops": [], "creates": []}
        if cr == "main":
            main_creates.append("create %d" % ui)
        else:
            units[cr]["creates"].append("create %d" % ui)
        units.append(u)
    # bodies
    waiters = {e: [] for e in range(nev)}
    for u in units:
        c = t.cls(u["pool"])
        may_yield = u["kind"] == "ult" and c != "spmc"
        # a unit blocked in a pool shared by several streams is not waited for by any of
        # their joins (the library stops counting blocked units of shared pools)
        may_block = u["kind"] == "ult" and c in ("mpmc", "mpsc") and len(t.consumers(u["pool"])) == 1
        for _ in range(draw(st.integers(0, 3))):
            ch = ["work"]
            if may_yield:
                ch += ["yield", "yield"]
            if may_block and use_mutex:
                ch.append("cs")
            k = draw(st.sampled_from(ch))
            if k == "work":
                u["ops"].append("work %d" % draw(st.integers(1, 3)))
            elif k == "yield":
                u["ops"].append("yield")
            else:
                u["ops"] += ["lock 0", draw(st.sampled_from(["yield", "work 1"])), "unlock 0"]
        if may_block and nev and draw(st.integers(0, 2)) > 0:
            e = draw(st.integers(0, nev - 1))
            if draw(st.integers(0, 3)) == 0:
                # ask for a migration and block while it is pending: the blocked-unit
                # count has to follow the unit.  Targets: pools of the primary stream
                # (never joined before ABT_finalize) that accept foreign producers.
                tg = [p for p in t.xs[0]["pools"] if t.cls(p) in ("mpmc", "mpsc") and p != u["pool"]
                      and t.consumers(p) == [0]]
                if tg:
                    u["ops"].append("migpool -1 %d" % draw(st.sampled_from(tg)))
            u["ops"].append("evwait %d" % e)
            waiters[e].append(u["idx"])
            if draw(st.booleans()):
                u["ops"].append("yield")
    # setters: never block before the set
    main_sets = []
    gate = 1
    for e in range(nev):
        who = ["unit", "unit", "main"] + (["ext", "ext", "ext"] if next_ else [])
        k = draw(st.sampled_from(who))
        if k == "unit":
            cand = [u for u in units if u["idx"] not in waiters[e]]
            if cand:
                s = draw(st.sampled_from(cand))
                blk = [i for i, o in enumerate(s["ops"]) if o.startswith(("evwait", "lock"))]
                s["ops"].insert(draw(st.integers(0, blk[0] if blk else len(s["ops"]))),
                                "evset %d %d" % (e, e))
                continue
            k = "main"
        if k == "main":
            main_sets.append("evset %d %d" % (e, e))
        else:
            x = draw(st.integers(0, next_ - 1))
            ext_progs[x] += ["work %d" % draw(st.integers(1, 12)), "evset %d %d" % (e, e)]
    # joins
    order = draw(st.permutations(list(range(1, nxs))))
    njoin = draw(st.integers(0, len(order)))
    joins = []
    ext_joins = []
    for xi in order[:njoin]:
        op = draw(st.sampled_from(["xsjoin", "xsjoin", "xsfree"]))
        if next_ and draw(st.integers(0, 4)) == 0:
            ext_joins.append("%s %d" % (op, xi))
        else:
            joins.append("%s %d" % (op, xi))
            if draw(st.booleans()):
                joins.append("poolcheck")
    if ext_joins or any(j.startswith("xsfree") for j in joins):
        # a concurrent ABT_xstream_free destroys the pools being sampled
        joins = [j for j in joins if j != "poolcheck"]
    lines = [draw(sched_line(ctx, extra=" tick=10000 drain=0"))] + t.lines()
    for e in range(nev):
        lines.append("eventual %d nbytes=%d" % (e, draw(st.sampled_from([0, 8]))))
    if use_mutex:
        lines.append("mutex 0 kind=static")
    for x in range(next_):
        prog = ["fwait %d" % gate] + ext_progs[x]
        if x == 0:
            prog += ext_joins
        lines.append("ext %d : %s" % (x, "; ".join(prog)))
    for u in units:
        lines.append("unit %d type=%s named=0 pool=%d : %s" %
                     (u["idx"], u["kind"], u["pool"], "; ".join(u["creates"] + u["ops"]) or "nop"))
    lines.append("main : " + "; ".join(main_creates + main_sets + ["fset %d" % gate] + joins))
    return "\n".join(lines) + "\n"


def render(case, ctx):
    return case


def judge(text, res, ctx):
    return None


def classify(text, res, ctx):
    out = []
    for k in ("xsjoin_with_pending_units", "wait_before_set", "set_with_waiter", "contended_lock"):
        if stat(res, k):
            out.append(k)
    for k in ("xsfree", "kind=randws", "kind=fifo_wait", "access=priv", "sched=prio",
              "sched=randws", "sched=basic_wait", "type=task", "\next "):
        if k in text:
            out.append(k.strip())
    return out


def nontrivial(text, res, ctx):
    if "note waitjoin" in text:
        return stat(res, "xsjoin_with_pending_units") >= 1
    if "note c06-stacked" in text:
        return stat(res, "stacked_scheds") >= 1 and "xs" in text.split("main :")[-1]
    if "note c06-resumerace" in text:
        return stat(res, "resumes") >= 1 and "xs" in text.split("main :")[-1]
    if "note yieldto" in text:
        return stat(res, "directed_switches") >= 1
    return stat(res, "xsjoin_with_pending_units") >= 1


PLAN = {
    "quick": [("coarse", 9, 250), ("san", 4, 80), ("native", 2, 150), ("coarse", 2, 200, "yieldto"),
              ("native", 1, 100, "yieldto"), ("coarse", 3, 300, "resumerace"),
              ("coarse", 2, 250, "stacked"), ("san", 1, 150, "stacked"), ("coarse", 6, 800, "waitjoin")],
    "thorough": [("coarse", 6, 5000), ("fine", 6, 3000), ("san", 2, 1500), ("nopool", 1, 1000),
                 ("native", 1, 2500), ("coarse", 2, 3000, "yieldto"), ("native", 1, 1000, "yieldto"),
                 ("coarse", 3, 5000, "resumerace"), ("coarse", 2, 4000, "stacked"), ("san", 2, 2000, "stacked"),
                 ("coarse", 4, 8000, "waitjoin"), ("fine", 2, 3000, "waitjoin")],
}
