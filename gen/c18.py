"""C18 - a failed allocation makes the call fail cleanly and leaves the runtime intact.

Executor mode 3 (exec/faults.c) with the fault injector / resource ledger of
inst/wrap_alloc.c.  A generated case is: memory-pool environment settings; whether
ABT_init itself runs with its K-th allocation failing; a context (1-3 streams, a blocked
ULT, terminated-but-kept ULT and tasklet, a joined stream, keys with values, an unattached
pool, a user-defined pool); the caller (primary ULT, ULT on a secondary stream, external
thread); and 1-10 calls "routine k a b c" - one of 35 creating / initialising routines with
generated arguments, made with the k-th allocation event of the calling thread failing
(malloc, calloc, realloc, posix_memalign, mmap, pthread_create, pthread_mutex_init,
pthread_cond_init).
Oracle (executor): see exec/faults.c - error code instead of a crash, output handle
untouched or the NULL handle, snapshot of every pre-existing object unchanged, retry
succeeds, the new object works, follow-up workload runs on every stream, the resource
ledger is empty after ABT_finalize (and right after a failed ABT_init).
The flavours are ASan/UBSan builds with and without the memory pools (without them every
descriptor and stack is a separate allocation site); both use real threads: the fault plan
is per calling thread and the context is quiescent, so the schedule does not matter here.
ABT_thread_create_many is excluded: its documentation declares errors unhandled (undefined).
"""
from hypothesis import strategies as st
from gen.common import stat

RULE = ("case = environment + context (streams, caller) + list of (routine, arguments, index k of the "
        "failing allocation); non-trivial = at least one call really failed because of the injected "
        "fault (k <= number of allocation events of that call, no fall-back) and was retried; "
        "distinct = distinct case text")

ROUTINES = ["thread_create", "thread_create", "thread_create", "thread_create_to",
            "thread_create_on_xstream", "task_create", "task_create", "task_create_on_xstream",
            "thread_revive", "thread_revive", "task_revive", "xstream_create", "xstream_create",
            "xstream_create", "xstream_revive", "set_main_sched_joined", "set_main_sched_self",
            "sched_create_basic", "sched_create_basic", "sched_create", "pool_create_basic",
            "pool_create", "pool_user_def_create", "pool_config_create", "pool_config_set",
            "sched_config_create", "key_create", "key_set_self", "key_set_self", "key_set_other",
            "key_set_other", "set_callback", "mutex_create", "mutex_create_with_attr",
            "mutex_attr_create", "cond_create", "rwlock_create", "eventual_create", "future_create",
            "barrier_create", "xstream_barrier_create", "timer_create", "timer_dup",
            "thread_attr_create"]
LEVEL = "fault_enumeration"
LP = ["malloc", "mmap_rp", "mmap_hp_rp", "mmap_hp_thp", "thp"]


@st.composite
def cases(draw, ctx):
    lines = ["cfg seed=%d native=1 mode=3" % draw(st.integers(0, 1 << 20))]
    if draw(st.booleans()):
        lines.append("env ABT_MEM_MAX_NUM_STACKS=%d" % draw(st.sampled_from([1, 2, 4, 16])))
    if draw(st.booleans()):
        lines.append("env ABT_MEM_MAX_NUM_DESCS=%d" % draw(st.sampled_from([1, 2, 4, 16])))
    if draw(st.integers(0, 2)) == 0:
        lines.append("env ABT_MEM_LP_ALLOC=%s" % draw(st.sampled_from(LP)))
    if draw(st.integers(0, 2)) == 0:
        lines.append("env ABT_MEM_PAGE_SIZE=%d" % draw(st.sampled_from([4096, 65536])))
    if draw(st.integers(0, 2)) == 0:
        lines.append("env ABT_MEM_STACK_PAGE_SIZE=%d" % draw(st.sampled_from([32768, 65536, 1 << 20])))
    if draw(st.integers(0, 3)) == 0:
        lines.append("env ABT_STACK_OVERFLOW_CHECK=%s" % draw(st.sampled_from(["mprotect", "mprotect_strict"])))
        lines.append("env ABT_THREAD_STACKSIZE=32768")
    initk = 0
    if draw(st.integers(0, 3)) == 0:
        # ABT_init performs ~17 allocation events by default and several hundred with
        # small memory-pool pages
        initk = draw(st.integers(1, 22)) if draw(st.integers(0, 4)) else draw(st.integers(23, 500))
    lines.append("ft ctx nxs=%d caller=%d initk=%d" %
                 (draw(st.integers(1, 3)), draw(st.sampled_from([0, 0, 1, 1, 2])), initk))
    for _ in range(draw(st.integers(1, 10))):
        r = draw(st.sampled_from(ROUTINES))
        kk = draw(st.sampled_from(["low", "low", "low", "low", "low", "mid", "mid", "none", "none", "high"]))
        k = {"low": draw(st.integers(1, 4)), "mid": draw(st.integers(5, 16)), "none": 0,
             "high": draw(st.integers(17, 260))}[kk]
        lines.append("ft call %s k=%d a=%d b=%d c=%d" %
                     (r, k, draw(st.integers(0, 7)), draw(st.integers(0, 7)), draw(st.integers(0, 3))))
    return "\n".join(lines) + "\n"


def render(case, ctx):
    return case


def judge(text, res, ctx):
    return None


def classify(text, res, ctx):
    out = []
    for k, v in res.stats.items():
        if k.startswith("f:") or k.startswith("fired:"):
            out.append(k)
    if stat(res, "ft_fallback_success"):
        out.append("fallback_success")
    for k in ("caller=0", "caller=1", "caller=2", "nxs=1", "nxs=2", "nxs=3"):
        if k in text:
            out.append(k)
    return out


def nontrivial(text, res, ctx):
    return stat(res, "ft_failed_calls") >= 1


PLAN = {
    "quick": [("nativesan", 5, 400), ("nopool", 5, 400)],
    "thorough": [("nativesan", 8, 12000), ("nopool", 8, 12000)],
}
