"""C05 - condition variables: atomic release-and-wait, exact wake-ups, no
spurious wake-up, waiter returns holding the mutex.

Monitor programs with credit accounting under the mutex (DESIGN.md section 5,
C05).  Waiters: `lock m; cwait c m; unlock m` (x rounds); signallers run the
executor's `csigloop`, which under the mutex issues one credit per signal (all
outstanding ones per broadcast) only when an un-credited registered waiter
exists, until all waits have returned.  Oracle (inline): a return without a
credit = spurious/duplicated wake-up; a lost signal or a missed broadcast
leaves a waiter blocked = deadlock / step-limit; the mutex holder bookkeeping
of C04 proves the waiter returns holding the mutex and nobody else does.
Termination argument: signallers never block while holding the mutex, poll
with a yield (single-pool schedulers only) or an OS-level wait, and stop only
when every wait has returned.
"""
from hypothesis import strategies as st
from gen.common import sched_line, simple_topology, stat

RULE = ("variant timed: see gen/c19.py (waiters with deadlines + clock + signals; non-trivial = a waiter timed out while another stayed queued); otherwise: case = topology + monitor program (waiters x rounds, signallers with a "
        "signal/broadcast pattern, optional tasklet callers that must be rejected) + schedule; "
        "non-trivial = some signal/broadcast was issued while >= 2 registered waiters were "
        "un-credited, or within 80 scheduling points of a waiter's registration (racing with "
        "its enqueue); distinct = distinct case text")

FAR = 1000000000  # ms


@st.composite
def cases(draw, ctx):
    if ctx.get("variant") == "timed":
        # timed and untimed waiters mixed on one condition variable, deadlines expiring
        # while others stay queued (the phase-structured / racing programs of gen/c19.py):
        # "broadcast wakes all current waiters" and "no signal is lost" must survive the
        # removal of timed-out entries from the waiter queue
        from gen import c19
        return draw(st.one_of(c19.phased(ctx), c19.racing(ctx), c19.edge(ctx))) + "note c05-timed\n"
    topo, npools, nxs = draw(simple_topology(max_xs=3))
    lines = [draw(sched_line(ctx))] + topo
    ncond = draw(st.sampled_from([1, 1, 2]))
    nmutex = draw(st.integers(1, ncond))
    for m in range(nmutex):
        lines.append("mutex %d kind=%s" % (m, draw(st.sampled_from(["dyn", "static", "rec", "staticrec"]))))
    for c in range(ncond):
        lines.append("cond %d kind=%s" % (c, draw(st.sampled_from(["dyn", "static"]))))
    cm = [c % nmutex for c in range(ncond)]
    units, exts, main = [], [], []
    totals = [0] * ncond
    waiters = []
    for c in range(ncond):
        for _ in range(draw(st.integers(1, 4))):
            kind = draw(st.sampled_from(["ult", "ult", "ult", "ext"]))
            rounds = draw(st.integers(1, 3))
            prog = []
            for _ in range(rounds):
                w = draw(st.sampled_from(["cwait %d %d" % (c, cm[c])] * 3 +
                                         ["ctimedwait %d %d %d" % (c, cm[c], FAR)]))
                prog += ["lock %d" % cm[c], w, "unlock %d" % cm[c]]
                if draw(st.booleans()):
                    prog.append("yield" if kind == "ult" else "work 2")
            totals[c] += rounds
            waiters.append((kind, prog))
    sigs = []
    for c in range(ncond):
        for _ in range(draw(st.integers(1, 2))):
            kind = draw(st.sampled_from(["ult", "ext", "main"]))
            pattern = draw(st.integers(0, 2 ** 17 - 1))
            sigs.append((kind, ["csigloop %d %d %d %d" % (c, cm[c], totals[c], pattern)]))
    rej = []
    for _ in range(draw(st.sampled_from([0, 0, 1, 2]))):
        c = draw(st.integers(0, ncond - 1))
        rej.append(("task", ["lock %d" % cm[c], "cwait_rej %d %d" % (c, cm[c]),
                             "unlock %d" % cm[c]]))
    actors = waiters + sigs + rej
    actors = draw(st.permutations(actors))
    main_ops = []
    tail = []
    for kind, prog in actors:
        if kind == "ext":
            exts.append(prog)
        elif kind == "main":
            tail += prog
        else:
            i = len(units)
            named = draw(st.booleans())
            pool = draw(st.integers(0, npools - 1))
            units.append("unit %d type=%s named=%d pool=%d : %s" %
                         (i, kind, int(named), pool, "; ".join(prog)))
            main_ops.append("create %d" % i)
    for i, p in enumerate(exts):
        lines.append("ext %d : %s" % (i, "; ".join(p)))
    lines += units
    lines.append("main : " + "; ".join(main_ops + tail))
    return "\n".join(lines) + "\n"


def render(case, ctx):
    return case


def judge(text, res, ctx):
    if "note c05-timed" in text:
        from gen import c19
        return c19.judge(text, res, ctx)
    return None


def classify(text, res, ctx):
    out = ["timed_mix"] if "note c05-timed" in text else []
    for k in ("cond_timedout", "signal_with_2_waiters", "signal_racing_enqueue", "signal_no_waiter",
              "broadcasts", "tasklet_rejected", "cond_recursive_owner_checked"):
        if stat(res, k):
            out.append(k)
    if "ctimedwait" in text:
        out.append("timedwait_far")
    if "\next " in text:
        out.append("external")
    return out


def nontrivial(text, res, ctx):
    if "note c05-timed" in text:
        from gen import c19
        return c19.nontrivial(text, res, ctx)
    return stat(res, "signal_with_2_waiters") >= 1 or stat(res, "signal_racing_enqueue") >= 1


PLAN = {
    "quick": [("coarse", 8, 220), ("san", 4, 80), ("native", 2, 120), ("coarse", 3, 300, "timed")],
    "thorough": [("coarse", 6, 5000), ("fine", 6, 3000), ("san", 2, 1500), ("nopool", 1, 1000),
                 ("native", 1, 2500), ("coarse", 3, 4000, "timed"), ("fine", 2, 2000, "timed")],
}
