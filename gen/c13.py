"""C13 - migration moves a unit to the requested pool exactly once, with its callback.

Generated: 2..3 streams with 1..2 pools each; migratable and non-migratable ULTs (and
tasklets that are asked to move before they start) with a callback set through the
attribute, through ABT_thread_set_callback, or none; requests migrate_to_pool / _to_sched /
_to_xstream / migrate issued by the primary ULT, by an external thread and by the unit
itself, repeated and overwritten before being served, interleaved with the target's
yields; requests that must be rejected (current pool, non-migratable unit).
Oracle (executor, exec/ops_switch.h): rejections return the documented code; a slice that
starts after a scheduling point which itself began after an accepted request had returned
must report ABT_self_get_last_pool among the pools requested since (the last request wins
when requests do not overlap; a dropped or stale request fails this); callbacks run at
most once per accepted request, at least once per observed pool change, never for units
without a callback, with the unit's own handle and argument; the unit still runs exactly
once to completion (C01 bookkeeping); ABT_thread_migrate succeeds when another running
stream exists.
Excluded by construction (counted): units with pending requests never block - see
DESIGN.md section 6 (blocked-counter defect).
"""
from hypothesis import strategies as st
from gen.common import sched_line, stat

RULE = ("case = topology + units (migratable?, callback kind) + request lists of main / external "
        "thread / the unit itself + schedule; non-trivial = at least one accepted request was "
        "observed served (counter migrations_observed) and the unit received >= 2 requests or "
        "a request while it was between two yields; distinct = distinct case text")


@st.composite
def cases(draw, ctx):
    nxs = draw(st.sampled_from([2, 3, 3, 4]))
    lines = [draw(sched_line(ctx, extra=" tick=1000"))]
    pools = []       # pool -> stream
    xs_pools = []
    for x in range(nxs):
        if x == 0:
            lines.append("pool 0 kind=fifo access=mpmc")
            pools.append(0)
            xs_pools.append([0])
            continue
        npl = draw(st.sampled_from([1, 1, 2]))
        pl = []
        for _ in range(npl):
            pl.append(len(pools))
            lines.append("pool %d kind=%s access=mpmc" %
                         (len(pools), draw(st.sampled_from(["fifo", "fifo", "randws", "fifo_wait"]))))
            pools.append(x)
        xs_pools.append(pl)
    lines.append("xs 0 sched=default pools=0")
    for x in range(1, nxs):
        lines.append("xs %d sched=%s pools=%s" % (x, draw(st.sampled_from(["basic", "prio"])),
                                                  ",".join(map(str, xs_pools[x]))))
    npools = len(pools)
    units, main_ops, main_req, main_end = [], [], [], []
    main_resumes = []   # after all flags: a yield-polling unit must never starve a unit main waits for
    ext_prog = []
    use_ext = draw(st.booleans())
    flag = 1
    for _ in range(draw(st.integers(1, 4))):
        u = len(units)
        kind = draw(st.sampled_from(["ult", "ult", "ult", "ult", "task"]))
        migratable = draw(st.integers(0, 5)) != 0 or kind == "task"
        cb = draw(st.sampled_from([0, 1, 1, 2])) if kind == "ult" else draw(st.sampled_from([0, 2]))
        pool = draw(st.integers(0, npools - 1))
        F = flag
        flag += 1
        if kind == "ult":
            body = ["yieldn %d" % draw(st.integers(0, 3))]
            if cb != 2 and draw(st.integers(0, 2)) == 0:
                body.append("migpool -1 %d" % draw(st.integers(0, npools - 1)))
                body.append("yieldn %d" % draw(st.integers(1, 3)))
            blocks = draw(st.integers(0, 3)) == 0
            if blocks:
                # block with a request possibly pending: the blocked-unit count must
                # follow the unit to its new pool (resumed by the primary ULT)
                body.append("susp")
            body += ["fwait %d" % F, "yieldn %d" % draw(st.integers(2, 4)), "selfstate"]
        else:
            body = ["work 1"]
            blocks = False
        units.append("unit %d type=%s named=1 pool=%d migratable=%d cb=%d : %s" %
                     (u, kind, pool, int(migratable), 1 if cb == 1 else 0, "; ".join(body)))
        main_ops.append("create %d" % u)
        if cb == 2:
            main_ops.append("setcb %d" % u)
        reqs = []
        for _ in range(draw(st.integers(0, 4))):
            k = draw(st.sampled_from(["pool", "pool", "pool", "pool", "sched", "xs", "xs", "migrate"]))
            if k == "pool":
                reqs.append("migpool %d %d" % (u, draw(st.integers(0, npools - 1))))
            elif k == "sched":
                reqs.append("migsched %d %d" % (u, draw(st.integers(0, nxs - 1))))
            elif k == "xs":
                reqs.append("migxs %d %d" % (u, draw(st.integers(0, nxs - 1))))
            else:
                reqs.append("migrate %d" % u)
            if draw(st.integers(0, 2)) == 0:
                reqs.append(draw(st.sampled_from(["yield", "work 3", "yieldn 3"])))
        if use_ext and kind == "ult" and draw(st.booleans()):
            n = draw(st.integers(0, len(reqs)))
            ext_prog += [r if not r.startswith("yield") else "work 2" for r in reqs[n:]]
            reqs = reqs[:n]
        main_req += reqs
        if kind == "ult":
            if blocks:
                main_resumes.append("resume %d" % u)
            main_end.append("fset %d" % F)
    ext_lines = []
    if use_ext:
        D = flag
        ext_lines.append("ext 0 : fwait 60; %s" % "; ".join(ext_prog + ["fset %d" % D]))
        main_ops.append("fset 60")
        main_end = ["fwait %d" % D] + main_end
    lines += ext_lines + units
    lines.append("main : " + "; ".join(main_ops + main_req + main_end + main_resumes))
    return "\n".join(lines) + "\n"


def render(case, ctx):
    return case


def judge(text, res, ctx):
    return None


def classify(text, res, ctx):
    out = []
    for k in ("mig_accepted", "migrations_observed", "mig_rejected_same_pool",
              "mig_rejected_nonmigratable", "mig_rejected_other", "units_with_accepted_migration"):
        if stat(res, k):
            out.append(k)
    for k in ("migsched", "migxs", "migrate ", "migpool -1", "setcb", "type=task", "\next "):
        if k in text:
            out.append(k.strip())
    return out


def nontrivial(text, res, ctx):
    return stat(res, "migrations_observed") >= 1 and stat(res, "mig_accepted") >= 2


PLAN = {
    "quick": [("coarse", 11, 900), ("san", 2, 250), ("nopool", 1, 250), ("native", 2, 300)],
    "thorough": [("coarse", 6, 6000), ("fine", 6, 3000), ("san", 2, 1500), ("nopool", 1, 1500),
                 ("native", 1, 2500)],
}
