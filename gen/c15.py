"""C15 - descriptors and stacks are exclusively owned and conserved; any stack size works.

(b) API level (variant "api"): ULTs created with the default stack, with non-default stack
sizes drawn from 8 KiB..16 MiB with a bias to sizes that are not multiples of 64 or 4096
and to +-8 around powers of two, and with user-supplied stacks at generated 8-byte-aligned
offsets and 8-byte-multiple sizes, under generated memory-pool environments
(ABT_MEM_MAX_NUM_STACKS / _DESCS, ABT_MEM_PAGE_SIZE, ABT_MEM_STACK_PAGE_SIZE,
ABT_MEM_LP_ALLOC, ABT_STACK_OVERFLOW_CHECK, ABT_THREAD_STACKSIZE); created and freed from
several streams and external threads, freed by another actor than the creator, revived.
Oracle (executor): ABT_thread_get_stacksize >= requested; the running frame lies inside the
reported stack; stacks of live units are pairwise disjoint; the unit writes and re-reads a
pattern over (nearly) its whole stack; free / finalize complete without glibc or ASan
reporting allocator corruption; LeakSanitizer finds nothing after ABT_finalize.
(a) White-box memory-pool driver (variant "pool", executor mode 2, exec/mempool.c): one
global pool with small generated parameters and 1..4 local pools; generated alloc/free
sequences that cross the bucket hand-over thresholds; every block is aligned, inside a
page of the pool, disjoint from all live blocks, keeps its pattern until freed; after
freeing everything and destroying the pools no page is left.
"""
from hypothesis import strategies as st
from gen.common import sched_line, simple_topology, stat

RULE = ("api: case = memory environment + units with stack provenance/size + who creates / frees "
        "+ schedule; non-trivial = a ULT with a non-default stack size that is not a multiple of "
        "64, or a user-supplied stack at an offset that is not a multiple of 16; pool: case = "
        "pool parameters + alloc/free script; non-trivial = at least one bucket moved local->global "
        "and one global->local; distinct = distinct case text")

LP = ["malloc", "mmap_rp", "mmap_hp_rp", "mmap_hp_thp", "thp"]


@st.composite
def stack_size(draw):
    k = draw(st.sampled_from(["odd", "odd", "pow", "page", "big"]))
    if k == "odd":
        return draw(st.integers(8192, 200000))
    if k == "pow":
        return 2 ** draw(st.integers(13, 20)) + draw(st.sampled_from([-8, 8, 0, -24, 40, 1, -1, 4]))
    if k == "page":
        return 4096 * draw(st.integers(2, 64)) + draw(st.sampled_from([0, 0, 64, 8, 100]))
    return draw(st.sampled_from([1 << 20, (1 << 20) + 8, (4 << 20) - 8, 16 << 20, (16 << 20) + 72]))


@st.composite
def api_cases(draw, ctx):
    topo, npools, nxs = draw(simple_topology(max_xs=3))
    lines = [draw(sched_line(ctx, extra=" tick=1000"))]
    envs = []
    if draw(st.booleans()):
        envs.append("ABT_MEM_MAX_NUM_STACKS=%d" % draw(st.sampled_from([1, 2, 4, 8, 16, 64])))
    if draw(st.booleans()):
        envs.append("ABT_MEM_MAX_NUM_DESCS=%d" % draw(st.sampled_from([1, 4, 8, 16, 128])))
    if draw(st.booleans()):
        envs.append("ABT_MEM_PAGE_SIZE=%d" % draw(st.sampled_from([4096, 65536, 1 << 20, 3000])))
    if draw(st.booleans()):
        envs.append("ABT_MEM_STACK_PAGE_SIZE=%d" % draw(st.sampled_from([65536, 1 << 20, 8 << 20, 100000])))
    if draw(st.booleans()):
        envs.append("ABT_MEM_LP_ALLOC=%s" % draw(st.sampled_from(LP)))
    if draw(st.integers(0, 2)) == 0:
        envs.append("ABT_STACK_OVERFLOW_CHECK=%s" % draw(st.sampled_from(["mprotect", "mprotect_strict", "none"])))
    guarded = any("mprotect" in e for e in envs)
    if draw(st.integers(0, 3)) == 0:
        envs.append("ABT_THREAD_STACKSIZE=%d" % draw(st.sampled_from(
            [32768, 65536 + 8, 131072] if guarded else [16384, 20000, 32768, 65536 + 8, 131072])))
    elif guarded:
        envs.append("ABT_THREAD_STACKSIZE=32768")   # the guard pages are taken out of the stack
    for e in envs:
        lines.append("env " + e)
    lines += topo
    units, main, tail, exts = [], [], [], [[], []]
    next_ = draw(st.integers(0, 2))
    n = draw(st.integers(2, 12))
    flag = 1
    for _ in range(n):
        u = len(units)
        sk = draw(st.sampled_from([0, 0, 1, 1, 1, 2]))
        attrs = ""
        if sk == 1:
            attrs = " stackkind=1 stack=%d" % (draw(stack_size()) + (24576 if guarded else 0))
        elif sk == 2:
            size = 8 * draw(st.integers(4096 if guarded else 1024, 20000))
            attrs = " stackkind=2 stack=%d stackoff=%d" % (size, 8 * draw(st.integers(0, 9)))
        named = draw(st.integers(0, 3)) != 0 or sk == 2
        body = ["stackuse %d" % draw(st.sampled_from([300, 900, 1000]))]
        if draw(st.booleans()):
            body += ["yield", "stackuse 500"]
        units.append("unit %d type=ult named=%d pool=%d%s : %s" %
                     (u, int(named), draw(st.integers(0, npools - 1)), attrs, "; ".join(body)))
        creator = draw(st.sampled_from(["main", "main", "ext"])) if next_ else "main"
        freer = draw(st.sampled_from(["main", "ext", "ult"])) if named else None
        if freer == "ext" and not next_:
            freer = "main"
        f = flag
        flag += 1
        if creator == "main":
            main += ["create %d" % u, "fset %d" % f]
        else:
            exts[0] += ["create %d" % u, "fset %d" % f]
        if freer == "main":
            tail += ["fwait %d" % f, draw(st.sampled_from(["free %d", "join %d"])) % u]
            if tail[-1].startswith("join") and sk != 2 and draw(st.booleans()):
                tail += ["revive %d %d" % (u, draw(st.integers(0, npools - 1))), "free %d" % u]
        elif freer == "ext":
            exts[next_ - 1] += ["fwait %d" % f, "free %d" % u]
        elif freer == "ult":
            h = len(units)
            units.append("unit %d type=ult named=0 pool=%d : fwait %d; free %d" %
                         (h, draw(st.integers(0, npools - 1)), f, u))
            main.append("create %d" % h)
    for i in range(next_):
        lines.append("ext %d : %s" % (i, "; ".join(exts[i]) or "nop"))
    lines += units
    lines.append("main : " + "; ".join(main + tail))
    lines.append("note api")
    return "\n".join(lines) + "\n"


@st.composite
def pool_cases(draw, ctx):
    """white-box driver of the memory pool (executor mode 2, exec/mempool.c)"""
    nlocal = draw(st.integers(1, 4))
    hpb = draw(st.sampled_from([1, 2, 2, 3, 3, 4, 5, 8]))
    hsize = draw(st.sampled_from([64, 128, 192, 320, 24, 40, 72, 1024]))
    hoff = draw(st.sampled_from([0, 0, 8, 64])) if hsize >= 128 else 0
    page = draw(st.sampled_from([4096, 4096, 8192, 65536])) if hsize < 1024 else \
        draw(st.sampled_from([4096, 65536]))
    if draw(st.integers(0, 3)) == 0:
        page = hsize * draw(st.integers(1, 6)) + 56 + 8 * draw(st.integers(0, 20))  # tiny pages
    lp = draw(st.sampled_from([0, 1, 2, 3, 4]))
    head = draw(sched_line(ctx, extra=" mode=2"))
    maxlen = 160 if ctx.get("native") else 40
    lines = [head, "mp pool nlocal=%d hpb=%d hsize=%d hoff=%d page=%d lp=%d" %
             (nlocal, hpb, hsize, hoff, page, lp)]
    style = draw(st.sampled_from(["mixed", "mixed", "burst", "pingpong", "churn", "churn"]))
    if style == "churn":
        # tiny buckets: every alloc/free moves a bucket between the local pools and the
        # lock-free LIFO of the global pool, so the same headers are popped and pushed
        # again and again while another thread sits between its load and its CAS
        hpb = draw(st.sampled_from([1, 1, 1, 2]))
        nlocal = draw(st.integers(2, 3))
        lines[1] = "mp pool nlocal=%d hpb=%d hsize=%d hoff=%d page=%d lp=%d" % (nlocal, hpb, hsize, hoff, page, lp)
    for t in range(nlocal):
        ops = []
        n = draw(st.integers(4, maxlen))
        if style == "burst":
            k = draw(st.integers(2 * hpb, 4 * hpb + 4))
            while len(ops) < n:
                ops += ["a"] * k
                ops += [draw(st.sampled_from(["f%d", "g%d"])) % draw(st.integers(0, 99))
                        for _ in range(draw(st.integers(k // 2, k)))]
                ops += ["t%d" % draw(st.integers(0, 99)) for _ in range(draw(st.integers(0, k)))]
                if draw(st.integers(0, 2)) == 0:
                    ops.append("d")
        elif style == "churn":
            k0 = draw(st.integers(3, 7))
            ops += ["a"] * k0 + ["f0"] * k0 if t == 0 else []
            while len(ops) < n:
                k = draw(st.integers(1, 4))
                ops += ["a"] * k + ["f%d" % draw(st.integers(0, 3)) for _ in range(k)]
        elif style == "pingpong":
            # one side mostly allocates and gives away, the other takes and frees
            for _ in range(n):
                if t % 2 == 0:
                    ops.append(draw(st.sampled_from(["a", "a", "g%d", "g%d", "f%d", "d"])))
                else:
                    ops.append(draw(st.sampled_from(["t%d", "t%d", "t%d", "a", "f%d", "d"])))
        else:
            for _ in range(n):
                ops.append(draw(st.sampled_from(["a", "a", "a", "f%d", "f%d", "g%d", "t%d", "t%d", "d"])))
        ops = [o % draw(st.integers(0, 99)) if "%" in o else o for o in ops]
        lines.append("mp t%d : %s" % (t, " ".join(ops)))
    lines.append("note pool style=%s" % style)
    return "\n".join(lines) + "\n"


@st.composite
def churn_cases(draw, ctx):
    """tiny buckets, short alloc/free bursts: every operation pops / pushes the global
    pool's lock-free LIFO with recurring headers (the ABA situation); PCT schedules whose
    change points fall inside the run"""
    nlocal = draw(st.integers(2, 3))
    hpb = draw(st.sampled_from([1, 1, 1, 2]))
    hsize = draw(st.sampled_from([64, 128, 24]))
    lines = ["", "mp pool nlocal=%d hpb=%d hsize=%d hoff=0 page=%d lp=%d" %
             (nlocal, hpb, hsize, draw(st.sampled_from([4096, 8192])), draw(st.sampled_from([0, 1, 2])))]
    total = 0
    for t in range(nlocal):
        ops = []
        if t == 0:
            k0 = draw(st.integers(3, 7)) * hpb
            ops += ["a"] * k0 + ["f0"] * k0
        for _ in range(draw(st.integers(2, 8))):
            k = draw(st.integers(1, 4)) * hpb
            ops += ["a"] * k + ["f%d" % draw(st.sampled_from([0, 0, 1, 2])) for _ in range(k)]
        total += len(ops)
        lines.append("mp t%d : %s" % (t, " ".join(ops)))
    seed = draw(st.integers(0, 2 ** 31 - 1))
    if ctx.get("native"):
        lines[0] = "cfg seed=%d native=1 mode=2" % seed
    elif draw(st.integers(0, 3)) == 0:
        lines[0] = "cfg seed=%d strat=random mask=%d mode=2" % (seed, draw(st.sampled_from([3, 7, 15, 31])))
    else:
        lines[0] = "cfg seed=%d strat=pct d=%d pctlen=%d mode=2" % (
            seed, draw(st.integers(1, 4)), max(60, total * draw(st.sampled_from([3, 6, 6, 9]))))
    lines.append("note pool style=churn")
    return "\n".join(lines) + "\n"


@st.composite
def shared_cases(draw, ctx):
    """descriptor traffic on streams that share one pool: worker ULTs (which any of the
    streams may resume after a yield or a join) create named tasklets / ULTs into the shared
    pool and free them at once - usually before they have run, so that the free joins -
    while the other streams allocate and release descriptors of their own"""
    nxs = draw(st.integers(3, 4))
    lines = [draw(sched_line(ctx, extra=" tick=1000"))]
    if draw(st.booleans()):
        lines.append("env ABT_MEM_MAX_NUM_DESCS=%d" % draw(st.sampled_from([2, 4, 8, 16])))
    lines += ["pool 0 kind=fifo access=mpmc", "xs 0 sched=default pools=0",
              "pool 1 kind=%s access=mpmc" % draw(st.sampled_from(["fifo", "fifo", "randws"]))]
    for i in range(1, nxs):
        lines.append("xs %d sched=%s pools=1" % (i, draw(st.sampled_from(["basic", "basic", "randws"]))))
    units, main = [], []
    nworkers = draw(st.integers(2, 5))
    children = []
    for w in range(nworkers):
        k = draw(st.integers(2, 7))
        children.append(list(range(nworkers + sum(len(c) for c in children),
                                   nworkers + sum(len(c) for c in children) + k)))
    for w in range(nworkers):
        body = []
        for c in children[w]:
            body += ["create %d" % c]
            if draw(st.integers(0, 3)) == 0:
                body.append("yield")
            body += ["free %d" % c]
        units.append("unit %d type=ult named=1 pool=1 : %s" % (w, "; ".join(body)))
        main.append("create %d" % w)
    for w in range(nworkers):
        for c in children[w]:
            units.append("unit %d type=%s named=1 pool=1 : nop" %
                         (c, draw(st.sampled_from(["task", "task", "task", "ult"]))))
    main += ["free %d" % w for w in range(nworkers)]
    lines += units
    lines.append("main : " + "; ".join(main))
    lines.append("note api shared")
    return "\n".join(lines) + "\n"


@st.composite
def extfree_cases(draw, ctx):
    """descriptor traffic of external threads: two external threads free, at the same time,
    ULTs (pool stacks and user stacks: only the descriptor goes back) and tasklets that
    were created on execution streams; all of these frees go through the one descriptor
    pool reserved for external threads.  Afterwards a second wave of units is created and
    run: a descriptor handed out twice shows up as a duplicate handle or a crash."""
    lines = [draw(sched_line(ctx, extra=" tick=1000"))]
    lines.append("env ABT_MEM_MAX_NUM_DESCS=%d" % draw(st.sampled_from([1, 2, 2, 4, 8])))
    if draw(st.booleans()):
        lines.append("env ABT_MEM_MAX_NUM_STACKS=%d" % draw(st.sampled_from([1, 2, 4])))
    nxs = draw(st.integers(1, 2))
    lines += ["pool 0 kind=fifo access=mpmc", "xs 0 sched=default pools=0"]
    if nxs == 2:
        lines += ["pool 1 kind=fifo access=mpmc", "xs 1 sched=basic pools=1"]
    units, main, e0, e1 = [], [], ["fwait 1"], ["fwait 1"]
    n1 = draw(st.integers(2, 7))
    n2 = draw(st.integers(2, 7))
    for _ in range(n1):
        u = len(units)
        sk = draw(st.sampled_from([0, 2, 2]))
        attrs = " stackkind=2 stack=%d stackoff=%d" % (8 * draw(st.integers(2048, 6000)),
                                                        8 * draw(st.integers(0, 5))) if sk == 2 else ""
        units.append("unit %d type=ult named=1 pool=%d%s : %s" %
                     (u, draw(st.integers(0, nxs - 1)), attrs, draw(st.sampled_from(["nop", "yield", "work 1"]))))
        main += ["create %d" % u]
        e0.append("free %d" % u)
    for _ in range(n2):
        u = len(units)
        units.append("unit %d type=task named=1 pool=%d : %s" %
                     (u, draw(st.integers(0, nxs - 1)), draw(st.sampled_from(["nop", "work 1"]))))
        main += ["create %d" % u]
        e1.append("free %d" % u)
    main = list(draw(st.permutations(main)))
    # everything has terminated before the external threads start freeing
    main += ["join %d" % u for u in range(len(units))] + ["fset 1", "fwait 2", "fwait 3"]
    e0.append("fset 2")
    e1.append("fset 3")
    for _ in range(draw(st.integers(2, 8))):
        u = len(units)
        units.append("unit %d type=%s named=1 pool=%d : nop" %
                     (u, draw(st.sampled_from(["ult", "task"])), draw(st.integers(0, nxs - 1))))
        main += ["create %d" % u]
    main += ["free %d" % u for u in range(n1 + n2, len(units))]
    lines += ["ext 0 : " + "; ".join(e0), "ext 1 : " + "; ".join(e1)]
    lines += units
    lines.append("main : " + "; ".join(main))
    lines.append("note api extfree")
    return "\n".join(lines) + "\n"


@st.composite
def cases(draw, ctx):
    if ctx.get("variant") == "extfree":
        return draw(extfree_cases(ctx))
    if ctx.get("variant") == "shared":
        return draw(shared_cases(ctx))
    if ctx.get("variant") == "churn":
        return draw(churn_cases(ctx))
    if ctx.get("variant") == "pool":
        return draw(pool_cases(ctx))
    return draw(api_cases(ctx))


def render(case, ctx):
    return case


def judge(text, res, ctx):
    return None


def classify(text, res, ctx):
    out = ["pool" if "note pool" in text else "api"]
    for k in ("odd_stack_sizes", "stack_checks", "revives", "mp_to_global", "mp_from_global",
              "mp_cross_frees", "mp_local_redos", "mp_partial"):
        if stat(res, k):
            out.append(k)
    for k in ("stackkind=2", "ABT_MEM_LP_ALLOC", "ABT_STACK_OVERFLOW_CHECK=mprotect", "\next "):
        if k in text:
            out.append(k.strip())
    return out


def nontrivial(text, res, ctx):
    if "note pool" in text:
        return stat(res, "mp_to_global") + stat(res, "mp_local_redos") >= 1 and \
            stat(res, "mp_from_global") >= 1 and \
            (stat(res, "mp_cross_frees") >= 1 or ("style=churn" in text and stat(res, "mp_to_global") >= 2))
    import re
    if "note api extfree" in text:
        return True
    if "note api shared" in text:
        return stat(res, "join_before_end") >= 2
    odd = any(int(m) % 64 for m in re.findall(r"stackkind=1 stack=(\d+)", text))
    off = any(int(m) % 16 for m in re.findall(r"stackoff=(\d+)", text))
    return odd or off


PLAN = {
    "quick": [("coarse", 6, 200, "api"), ("san", 4, 100, "api"), ("native", 2, 150, "api"),
              ("coarse", 3, 300, "pool"), ("fine", 3, 200, "pool"), ("nativesan", 2, 400, "pool"),
              ("fine", 4, 150, "shared"), ("native", 2, 150, "shared"),
              ("fine", 3, 200, "extfree"), ("native", 1, 200, "extfree"),
              ("coarse", 4, 1200, "churn"), ("fine", 2, 500, "churn"), ("native", 2, 600, "churn")],
    "thorough": [("coarse", 4, 3000, "api"), ("fine", 4, 1500, "api"), ("san", 3, 1500, "api"),
                 ("native", 1, 2000, "api"), ("coarse", 4, 6000, "pool"), ("fine", 6, 4000, "pool"), ("san", 2, 2000, "pool"),
                 ("nativesan", 4, 20000, "pool"),
                 ("fine", 4, 3000, "extfree"), ("native", 2, 3000, "extfree"), ("fine", 6, 3000, "shared"), ("coarse", 2, 2000, "shared"), ("native", 3, 3000, "shared"),
                 ("coarse", 8, 20000, "churn"), ("fine", 4, 8000, "churn"), ("native", 3, 20000, "churn")],
}
