"""C02 - a ULT never runs on two streams at once; its context survives every switch.

Every operation of every ULT actor (and of the primary ULT) runs inside the assembly
trampoline exec/canary.S: seed-derived values are live in rbx, rbp, r12-r15, in the MXCSR
control bits (rounding, FTZ, DAZ), in the x87 control word (rounding, precision) and in a
256-byte block of the ULT's own stack while the operation - and whatever context switches
it performs - executes; all of them are compared afterwards.  Independently of that:
an actor that executes two operations at once (= runs on two streams) is detected by an
atomic in-operation flag, the double program counter (one copy on the ULT's stack, one on
the heap) detects a ULT that is resumed from a stale context, work-unit functions are
entered through a shim that checks rsp % 16 == 8, and `stackuse` writes / verifies a
pattern over the unit's whole stack and checks that live stacks are disjoint.

(a) `chains`: the single-stream directed-switch programs of gen/c11.py (yield, yield_to,
create_to, suspend, suspend_to, resume_yield_to, resume_suspend_to, exit_to,
resume_exit_to, exit; started and never-started targets) whose units get generated stack
provenance: memory pool, malloc'ed non-default sizes (also not multiples of 64), user
stacks at 8-byte-aligned addresses with 8-byte-multiple sizes (so that the stack top is
8 mod 16 half of the time).  Oracle: canaries + the reference interpreter's event order.
(d) `setmain`: gen/c17.py's stream life-cycle programs (main-scheduler replacement by the
primary ULT) with canaries on.
(b) `shared`: 2..3 secondary streams share one or two pools; ULTs in those pools yield,
suspend (resumed from another stream / the primary ULT / an external thread), join or free
other ULTs, block on a mutex and on an eventual - every switch returns the ULT to a pool
from which another stream may pop it while the previous stream is still inside the
switch.  Schedules come from dsched (coarse: every atomic is a scheduling point; fine:
every instrumented memory access), plus real parallel runs.
"""
import re
from hypothesis import strategies as st
from gen.common import sched_line, stat
from gen import c11

RULE = ("chains: case = pools + per-unit op lists (reference interpreter) + stack provenance per unit "
        "+ schedule; non-trivial = >= 4 directed switches and >= 1 unit on a non-pool stack; shared: "
        "case = streams sharing pools + units (yield / suspend+resume / join / lock / eventual) + stack "
        "provenance + schedule; non-trivial = a ULT continued on another stream than the one it ran on "
        "before the switch (counter stream_hops >= 1) and >= 20 canary-wrapped operations; distinct = "
        "distinct case text")


@st.composite
def stack_attr(draw, big=False):
    k = draw(st.sampled_from([0, 0, 1, 1, 2, 2, 2]))
    lo = 32768 if big else 16384
    if k == 1:
        return " stackkind=1 stack=%d" % draw(st.sampled_from(
            [lo + 8, lo + 24, lo + 4096 + 40, 65536 - 8, 65536 + 72, 100000, 131072 + 8]))
    if k == 2:
        return " stackkind=2 stack=%d stackoff=%d" % (8 * draw(st.integers(lo // 8, 12000)),
                                                       8 * draw(st.integers(0, 9)))
    return ""


@st.composite
def chains(draw, ctx):
    text = draw(c11.chains(ctx))
    lines = text.splitlines()
    out = []
    big = ctx.get("flavour") in ("san", "nopool", "nativesan")
    for l in lines:
        if l.startswith("cfg "):
            l += " canary=1"
        elif l.startswith("unit "):
            head, prog = l.split(" : ", 1)
            l = head + draw(stack_attr(big)) + " : " + prog
        out.append(l)
    return "\n".join(out) + "\n"


@st.composite
def shared(draw, ctx):
    big = ctx.get("flavour") in ("san", "nopool", "nativesan")
    nsec = draw(st.integers(2, 3))
    nshared = draw(st.integers(1, 2))
    lines = [draw(sched_line(ctx, extra=" tick=1000 canary=1"))]
    lines += ["pool 0 kind=fifo access=mpmc", "xs 0 sched=default pools=0"]
    for p in range(1, nshared + 1):
        lines.append("pool %d kind=%s access=mpmc" % (p, draw(st.sampled_from(["fifo", "fifo", "randws"]))))
    # a resumer polls (by yielding) until its suspender has announced the suspend: with two
    # pools per scheduler that is only starvation-free if both sit in the same pool and the
    # scheduler is not a work-stealing one (see Topo.poll_safe in gen/topo.py)
    sk = draw(st.sampled_from(["basic", "basic", "prio", "randws"] if nshared == 1 else ["basic", "prio"]))
    for i in range(1, nsec + 1):
        lines.append("xs %d sched=%s pools=%s" % (i, sk, ",".join(map(str, range(1, nshared + 1)))))
    lines += ["mutex 0", "eventual 0 nbytes=0"]
    units, main, tail, ext = [], [], [], []
    sp = lambda: draw(st.integers(1, nshared))

    def add(prog, named=1, pool=None):
        u = len(units)
        units.append("unit %d type=ult named=%d pool=%d%s : %s" %
                     (u, named, pool if pool is not None else sp(), draw(stack_attr(big)), "; ".join(prog)))
        return u

    def filler():
        return draw(st.sampled_from([["yield"], ["work 1"], ["yield", "yield"], ["stackuse 600"], []]))
    nblocks = draw(st.integers(2, 6))
    ev_waiters = 0
    for _ in range(nblocks):
        k = draw(st.sampled_from(["yield", "yield", "susp", "susp", "join", "join", "lock", "ev"]))
        if k == "yield":
            prog = []
            for _ in range(draw(st.integers(2, 6))):
                prog += ["yield"] + draw(st.sampled_from([[], [], ["work 1"], ["stackuse 500"]]))
            u = add(prog)
            main.append("create %d" % u)
            tail.append("free %d" % u)
        elif k == "susp":
            rounds = draw(st.integers(1, 3))
            prog = []
            for _ in range(rounds):
                prog += ["susp"] + filler()
            spool = sp()
            s = add(prog, pool=spool)
            main.append("create %d" % s)
            rprog = []
            for _ in range(rounds):
                rprog += ["resume %d" % s] + draw(st.sampled_from([[], ["work 2"], ["yield"]]))
            who = draw(st.sampled_from(["ult", "ult", "main", "ext"]))
            if who == "ult":
                r = add(rprog, named=0, pool=draw(st.sampled_from([0, spool])))
                main.append("create %d" % r)
            elif who == "main":
                tail += [x for x in rprog if x != "yield"]
            else:
                main.append("fset %d" % (10 + s))
                ext += ["fwait %d" % (10 + s)] + [x for x in rprog if x != "yield"]
            tail.append("free %d" % s)
        elif k == "join":
            t = add(filler() + ["yield"] + filler(), pool=draw(st.integers(0, nshared)))
            main.append("create %d" % t)
            how = draw(st.sampled_from(["join", "free"]))
            j = add(filler() + ["%s %d" % (how, t)] + filler())
            main.append("create %d" % j)
            tail.append("free %d" % j)
            if how == "join":
                tail.append("free %d" % t)
        elif k == "lock":
            for _ in range(draw(st.integers(2, 3))):
                u = add(filler() + ["lock 0", draw(st.sampled_from(["yield", "work 1", "yield"])), "unlock 0"] + filler())
                main.append("create %d" % u)
                tail.append("free %d" % u)
        else:
            u = add(filler() + ["evwait 0"] + filler())
            main.append("create %d" % u)
            tail.append("free %d" % u)
            ev_waiters += 1
    if ev_waiters:
        who = draw(st.sampled_from(["main", "ult"]))
        if who == "main":
            main.append("evset 0")
        else:
            u = add(filler() + ["evset 0"], named=0, pool=draw(st.integers(0, nshared)))
            main.append("create %d" % u)
    if ext:
        lines.append("ext 0 : " + "; ".join(ext))
    lines += units
    lines.append("main : " + "; ".join(main + tail))
    lines.append("note shared")
    return "\n".join(lines) + "\n"


@st.composite
def joins(draw, ctx):
    """join hand-off: joiners live in a pool shared by two or three streams, their targets
    terminate on yet another stream (or in the shared pool) at about the same time"""
    big = ctx.get("flavour") in ("san", "nopool", "nativesan")
    nshare = draw(st.integers(2, 3))
    lines = [draw(sched_line(ctx, extra=" tick=1000 canary=1"))]
    lines += ["pool 0 kind=fifo access=mpmc", "xs 0 sched=default pools=0",
              "pool 1 kind=%s access=mpmc" % draw(st.sampled_from(["fifo", "fifo", "randws"])),
              "pool 2 kind=fifo access=mpmc"]
    for i in range(1, nshare + 1):
        lines.append("xs %d sched=basic pools=1" % i)
    lines.append("xs %d sched=basic pools=2" % (nshare + 1))
    units, main, tail = [], [], []
    for _ in range(draw(st.integers(2, 7))):
        t = len(units)
        tprog = draw(st.sampled_from([["nop"], ["work 1"], ["yield"], ["work 2", "yield"], ["yield", "work 1"]]))
        units.append("unit %d type=ult named=1 pool=%d%s : %s" %
                     (t, draw(st.sampled_from([2, 2, 2, 1, 0])), draw(stack_attr(big)), "; ".join(tprog)))
        j = len(units)
        how = draw(st.sampled_from(["join", "join", "free"]))
        jprog = draw(st.sampled_from([[], [], ["work 1"], ["yield"]])) + ["%s %d" % (how, t)] + \
            draw(st.sampled_from([[], ["work 1"], ["yield"], ["stackuse 500"]]))
        units.append("unit %d type=ult named=1 pool=1%s : %s" % (j, draw(stack_attr(big)), "; ".join(jprog)))
        main += ["create %d" % t, "create %d" % j]   # the target's handle must exist first
        tail.append("free %d" % j)
        if how == "join":
            tail.append("free %d" % t)
    lines += units
    lines.append("main : " + "; ".join(main + tail))
    lines.append("note shared joins")
    return "\n".join(lines) + "\n"


@st.composite
def setmain(draw, ctx):
    """main-scheduler replacement as a context switch: the stream life-cycle programs of
    gen/c17.py (ABT_xstream_set_main_sched[_basic] by the primary ULT on its own stream and
    on secondary streams, revive, rank changes) with the canaries switched on"""
    from gen import c17
    text = draw(c17.cases(ctx))
    lines = [l + " canary=1" if l.startswith("cfg ") else l for l in text.splitlines()]
    return "\n".join(lines) + "\nnote setmain\n"


@st.composite
def cases(draw, ctx):
    if ctx.get("variant") == "setmain":
        return draw(setmain(ctx))
    if ctx.get("variant") == "joins":
        return draw(joins(ctx))
    if ctx.get("variant") == "shared":
        return draw(shared(ctx))
    return draw(chains(ctx))


def render(case, ctx):
    return case


def judge(text, res, ctx):
    return c11.judge(text, res, ctx)


def classify(text, res, ctx):
    out = ["chains" if "note chains" in text else "setmain" if "note setmain" in text else "shared"]
    for k in ("directed_switches", "create_to", "exits", "stream_hops", "suspends", "stack_checks",
              "join_before_end"):
        if stat(res, k):
            out.append(k)
    for k in ("stackkind=1", "stackkind=2", "popsusp", "ryt", "rst", "popexit", "rexit", "tyt", "popyt"):
        if k in text:
            out.append(k)
    tops = [(int(a) + int(b)) % 16 for a, b in re.findall(r"stackkind=2 stack=(\d+) stackoff=(\d+)", text)]
    if any(t == 8 for t in tops):
        out.append("user_stack_top_8_mod_16")
    return out


def nontrivial(text, res, ctx):
    if "note setmain" in text:
        return "setmain 0" in text and stat(res, "canary_ops") >= 5
    if "note chains" in text:
        return stat(res, "directed_switches") + stat(res, "create_to") >= 4 and "stackkind=" in text
    return stat(res, "stream_hops") >= 1 and stat(res, "canary_ops") >= 20


PLAN = {
    "quick": [("coarse", 3, 400, "chains"), ("san", 2, 150, "chains"), ("native", 1, 300, "chains"),
              ("coarse", 5, 300, "shared"), ("fine", 3, 150, "shared"), ("san", 1, 100, "shared"),
              ("native", 1, 200, "shared"), ("coarse", 3, 300, "joins"), ("fine", 2, 150, "joins"),
              ("native", 1, 200, "joins"), ("coarse", 2, 200, "setmain"), ("native", 1, 100, "setmain")],
    "thorough": [("coarse", 3, 8000, "chains"), ("fine", 1, 2000, "chains"), ("san", 2, 3000, "chains"),
                 ("native", 1, 5000, "chains"), ("coarse", 6, 8000, "shared"), ("fine", 6, 4000, "shared"),
                 ("san", 2, 2000, "shared"), ("native", 2, 5000, "shared"),
                 ("coarse", 4, 8000, "joins"), ("fine", 3, 4000, "joins"), ("native", 2, 5000, "joins"),
                 ("coarse", 2, 3000, "setmain"), ("native", 1, 1000, "setmain")],
}
