"""C09 - eventuals and futures become ready exactly once and wake every waiter.

Generated: eventuals with nbytes in {0,1,7,8,64}: 1..3 concurrent setters (ULT, tasklet,
external thread), waiters (ULT, external), testers of any kind, tasklet waiters that must
be refused, optional second generation after a reset at a quiescent point.  Futures with
0..6 compartments, with/without callback, more or fewer setters than compartments,
waiters and testers.  Oracle (inline, exec/ops_sync.h): a wait/test-ready never precedes
the first set call; the bytes read are those of one set of the generation and, at the
end, of the one set that returned success; exactly one set succeeds, the others return
ABT_ERR_EVENTUAL; future: exactly min(sets, n) sets succeed, ready implies n sets were
issued and the callback ran exactly once before, with a permutation of the set values.
Termination: every waiter has a setter (futures: at least n setters) when waiters exist.
"""
from hypothesis import strategies as st
from gen.common import sched_line, simple_topology, stat

RULE = ("case = topology + eventual/future objects + setter/waiter/tester actors of mixed "
        "kinds (+ optional reset and second generation) + schedule; non-trivial = a waiter was "
        "already inside wait when a set call started (counter set_with_waiter) or a wait "
        "started before the deciding set (wait_before_set); distinct = distinct case text")


@st.composite
def cases(draw, ctx):
    topo, npools, nxs = draw(simple_topology(max_xs=3))
    lines = [draw(sched_line(ctx))] + topo
    nev = draw(st.integers(0, 2))
    nfu = draw(st.integers(0 if nev else 1, 2))
    actors1, actors2 = [], []   # (kind, prog) for generation 1 / 2
    mid = []
    val = 0
    second = draw(st.booleans())
    for e in range(nev):
        lines.append("eventual %d nbytes=%d" % (e, draw(st.sampled_from([0, 1, 7, 8, 64]))))
        for gen, actors in ((0, actors1), (1, actors2)):
            if gen == 1 and not second:
                break
            nset = draw(st.integers(0, 3))
            nwait = draw(st.integers(0, 4)) if nset else 0
            for _ in range(nset):
                k = draw(st.sampled_from(["ult", "ult", "task", "ext", "main"]))
                pre = ["yield"] if k in ("ult", "main") and draw(st.booleans()) else []
                actors.append((k, pre + ["evset %d %d" % (e, val)]))
                val += 1
            for _ in range(nwait):
                k = draw(st.sampled_from(["ult", "ult", "ext"]))
                prog = ["evwait %d" % e]
                if draw(st.booleans()):
                    prog.append("evtest %d" % e)
                actors.append((k, prog))
            for _ in range(draw(st.integers(0, 2))):
                k = draw(st.sampled_from(["ult", "task", "ext"]))
                actors.append((k, ["evtest %d" % e] * draw(st.integers(1, 3))))
            if draw(st.sampled_from([False, False, True])):
                actors.append(("task", ["evwait_rej %d" % e]))
        if second:
            mid.append("evreset %d" % e)
    for f in range(nfu):
        n = draw(st.sampled_from([0, 1, 1, 2, 3, 4, 6]))
        lines.append("future %d n=%d cb=%d" % (f, n, int(draw(st.booleans()))))
        for gen, actors in ((0, actors1), (1, actors2)):
            if gen == 1 and not second:
                break
            nwait = draw(st.integers(0, 3))
            if nwait or n == 0:
                nset = draw(st.integers(n, n + 2))
            else:
                nset = draw(st.integers(0, n + 2))
            for _ in range(nset):
                k = draw(st.sampled_from(["ult", "ult", "task", "ext", "main"]))
                pre = ["yield"] if k in ("ult", "main") and draw(st.booleans()) else []
                actors.append((k, pre + ["fuset %d %d" % (f, val)]))
                val += 1
            for _ in range(nwait):
                k = draw(st.sampled_from(["ult", "ult", "ext"]))
                prog = ["fuwait %d" % f]
                if draw(st.booleans()):
                    prog.append("futest %d" % f)
                actors.append((k, prog))
            for _ in range(draw(st.integers(0, 2))):
                k = draw(st.sampled_from(["ult", "task", "ext"]))
                actors.append((k, ["futest %d" % f] * draw(st.integers(1, 3))))
            if draw(st.sampled_from([False, False, True])):
                actors.append(("task", ["fuwait_rej %d" % f]))
        if second:
            mid.append("fureset %d" % f)
    units, exts = [], []
    flag = 1
    main_ops = []
    for gen, actors in ((0, actors1), (1, actors2)):
        actors = draw(st.permutations(actors))
        creates, mains, joins, waits = [], [], [], []
        for kind, prog in actors:
            if kind == "ext" and len(exts) >= 12:
                kind = "ult"
            if kind == "ext":
                if gen == 1:
                    prog = ["fwait 0"] + prog
                elif second:
                    prog = prog + ["fset %d" % flag]
                    waits.append("fwait %d" % flag)
                    flag += 1
                exts.append(prog)
            elif kind == "main":
                mains += prog
            else:
                i = len(units)
                named = 1 if (second and gen == 0) else int(draw(st.booleans()))
                units.append("unit %d type=%s named=%d pool=%d : %s" %
                             (i, kind, named, draw(st.integers(0, npools - 1)), "; ".join(prog)))
                creates.append("create %d" % i)
                if second and gen == 0:
                    joins.append("join %d" % i)
        main_ops += creates + mains + joins + waits
        if gen == 0 and second:
            main_ops += mid + ["fset 0"]
    for i, p in enumerate(exts):
        lines.append("ext %d : %s" % (i, "; ".join(p)))
    lines += units
    lines.append("main : " + "; ".join(main_ops))
    return "\n".join(lines) + "\n"


def render(case, ctx):
    return case


def judge(text, res, ctx):
    return None


def classify(text, res, ctx):
    out = []
    for k in ("set_with_waiter", "wait_before_set", "second_set_rejected", "extra_set_rejected",
              "ev_reset", "fu_reset", "tasklet_rejected", "ev_test_ready", "fu_test_ready"):
        if stat(res, k):
            out.append(k)
    if "nbytes=0" in text:
        out.append("eventual_0_bytes")
    if " n=0 " in text:
        out.append("future_0_compartments")
    return out


def nontrivial(text, res, ctx):
    return stat(res, "set_with_waiter") >= 1 or stat(res, "wait_before_set") >= 1


PLAN = {
    "quick": [("coarse", 10, 250), ("san", 4, 80), ("native", 2, 150)],
    "thorough": [("coarse", 6, 5000), ("fine", 6, 3000), ("san", 2, 1500), ("nopool", 1, 1000),
                 ("native", 1, 2500)],
}
