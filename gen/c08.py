"""C08 - barriers release nobody early and everybody once the last waiter arrives.

Generated: per barrier n in 1..6 participants (ULT / external thread / primary ULT
mixed; tasklet callers must be refused), k in 1..5 consecutive rounds with optional
yields between rounds (fast callers re-enter while slow ones are still leaving), an
optional second phase after ABT_barrier_reinit to another n at a quiescent point.
Oracle (inline, exec/ops_sync.h): arrivals are counted per round before the call; on
return the round must have exactly n arrivals and the next round at most n; everybody
returns (deadlock / step-limit oracle).  Program termination: each barrier gets
exactly n participants per phase, each doing the same number of rounds.
"""
from hypothesis import strategies as st
from gen.common import sched_line, simple_topology, stat

RULE = ("case = topology + per barrier (n participants of mixed kinds, k rounds, optional "
        "reinit phase) + schedule; non-trivial = n >= 2 and k >= 2 and some participant was "
        "observed entering round r+1 before another had left round r (counter "
        "barrier_overlap); distinct = distinct case text")


@st.composite
def early_reinit(draw, ctx):
    """"... immediately reusable ... after ABT_barrier_reinit ... while slow ones are still
    leaving the previous round": one participant reinitialises the barrier (to another
    count) as soon as it is back from the last round and starts the next generation of
    participants, while the slow ones of the old round - external threads asleep in the
    kernel in particular - have not come back yet."""
    topo, npools, nxs = draw(simple_topology(max_xs=3))
    lines = [draw(sched_line(ctx))] + topo
    n1 = draw(st.integers(2, 5))
    n2 = draw(st.integers(1, 5).filter(lambda v: v != n1))
    lines.append("barrier 0 n=%d" % n1)
    k1 = draw(st.integers(1, 3))
    k2 = draw(st.integers(1, 3))
    units, exts, creates = [], [], []
    d_kind = draw(st.sampled_from(["ult", "main"]))
    main_part = []
    for p in range(n1):
        kind = d_kind if p == 0 else draw(st.sampled_from(["ext", "ext", "ult"]))
        prog = ["bwait 0"] * k1
        if p == 0:
            prog += ["breinit 0 %d" % n2, "fset 1"]
            if draw(st.booleans()):
                prog += ["bwait 0"] * k2   # the fast caller re-enters the new generation
                n2_left = n2 - 1
            else:
                n2_left = n2
        if kind == "main":
            main_part = prog
        elif kind == "ext":
            exts.append(prog)
        else:
            u = len(units)
            units.append("unit %d type=ult named=%d pool=%d : %s" %
                         (u, int(draw(st.booleans())), draw(st.integers(0, npools - 1)), "; ".join(prog)))
            creates.append("create %d" % u)
    for p in range(n2_left):
        kind = draw(st.sampled_from(["ext", "ult", "ult"]))
        prog = ["fwait 1"] + ["bwait 0"] * k2
        if kind == "ext" and len(exts) < 10:
            exts.append(prog)
        else:
            u = len(units)
            units.append("unit %d type=ult named=%d pool=%d : %s" %
                         (u, int(draw(st.booleans())), draw(st.integers(0, npools - 1)), "; ".join(prog)))
            creates.append("create %d" % u)
    for i, p in enumerate(exts):
        lines.append("ext %d : %s" % (i, "; ".join(p)))
    lines += units
    lines.append("main : " + "; ".join(creates + main_part))
    lines.append("note earlyreinit")
    return "\n".join(lines) + "\n"


@st.composite
def cases(draw, ctx):
    if ctx.get("variant") == "earlyreinit":
        return draw(early_reinit(ctx))
    topo, npools, nxs = draw(simple_topology(max_xs=3))
    lines = [draw(sched_line(ctx))] + topo
    nb = draw(st.sampled_from([1, 1, 2]))
    units, exts = [], []
    pre, mid, post = [], [], []   # main ops: create phase1, after-phase1, phase 2
    main_part = None
    flag = 1
    for b in range(nb):
        phases = draw(st.sampled_from([1, 1, 2]))
        n1 = draw(st.integers(1, 6))
        lines.append("barrier %d n=%d" % (b, n1))
        ns = [n1] + ([draw(st.integers(1, 5))] if phases == 2 else [])
        go_flag = None
        wait_flags = []
        if phases == 2:
            go_flag = flag
            flag += 1
        for ph, n in enumerate(ns):
            k = draw(st.integers(1, 5))
            for p in range(n):
                kinds = ["ult", "ult", "ult", "ext"]
                if main_part is None and ph == 0:
                    kinds.append("main")
                kind = draw(st.sampled_from(kinds))
                prog = []
                for r in range(k):
                    prog.append("bwait %d" % b)
                    c = draw(st.sampled_from(["", "", "yield", "work"]))
                    if c == "yield":
                        prog.append("yield" if kind != "ext" else "work 3")
                    elif c == "work":
                        prog.append("work %d" % draw(st.integers(1, 4)))
                if kind == "main":
                    main_part = prog
                elif kind == "ext":
                    if ph == 1:
                        prog = ["fwait %d" % go_flag] + prog
                    elif phases == 2:
                        prog = prog + ["fset %d" % flag]
                        wait_flags.append(flag)
                        flag += 1
                    exts.append(prog)
                else:
                    i = len(units)
                    pool = draw(st.integers(0, npools - 1))
                    named = 1 if (phases == 2 and ph == 0) else int(draw(st.booleans()))
                    units.append("unit %d type=ult named=%d pool=%d : %s" %
                                 (i, named, pool, "; ".join(prog)))
                    if ph == 0:
                        pre.append("create %d" % i)
                        if phases == 2:
                            mid.append("join %d" % i)
                    else:
                        post.append("create %d" % i)
            if ph == 0 and phases == 2:
                mid += ["fwait %d" % f for f in wait_flags]
                mid += ["breinit %d %d" % (b, ns[1]), "fset %d" % go_flag]
    for _ in range(draw(st.sampled_from([0, 0, 1]))):
        i = len(units)
        units.append("unit %d type=task named=0 pool=%d : bwait_rej %d" %
                     (i, draw(st.integers(0, npools - 1)), draw(st.integers(0, nb - 1))))
        pre.append("create %d" % i)
    for i, p in enumerate(exts):
        lines.append("ext %d : %s" % (i, "; ".join(p)))
    lines += units
    lines.append("main : " + "; ".join(pre + (main_part or []) + mid + post))
    return "\n".join(lines) + "\n"


def render(case, ctx):
    return case


def judge(text, res, ctx):
    return None


def classify(text, res, ctx):
    out = []
    for k in ("barrier_overlap", "barrier_reinit", "tasklet_rejected"):
        if stat(res, k):
            out.append(k)
    if "\next " in text:
        out.append("external")
    return out


def nontrivial(text, res, ctx):
    if "note earlyreinit" in text:
        return stat(res, "barrier_reinit") >= 1 and "\next " in text
    return stat(res, "barrier_overlap") >= 1 and stat(res, "barrier_waits") >= 4


PLAN = {
    "quick": [("coarse", 9, 250), ("san", 4, 80), ("native", 2, 150), ("coarse", 3, 250, "earlyreinit"),
              ("native", 1, 150, "earlyreinit")],
    "thorough": [("coarse", 6, 5000), ("fine", 6, 3000), ("san", 2, 1500), ("nopool", 1, 1000),
                 ("native", 1, 2500), ("coarse", 3, 4000, "earlyreinit"), ("native", 1, 2000, "earlyreinit")],
}
