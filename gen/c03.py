"""C03 - join/free return after, and only after, the target has terminated.

Generated: one joiner per target over caller kinds {ULT on the same stream, ULT on another
stream, tasklet (target on another stream), primary ULT, external thread} x target kinds
{ULT, tasklet} x target behaviours {returns at once, yields k times, blocks on an eventual
first, ABT_thread_exit, is cancelled by a third party or by the joiner} x {join, free,
join_many, free_many}, with a generated delay before the join so that it is issued
before, during or after the termination.
Oracle (executor): at the return the target's end record exists (ends == incarnation,
not running), ABT_thread_get_state == TERMINATED after join, handle == NULL after free,
the 64-byte payload the target wrote as its last action is read back intact, a cancelled
target never executes another op after the join returned, the join returns (deadlock /
step-limit oracle), new handles never equal live ones; in the `nopool` flavour ASan
reports any double release or use after free of a descriptor or stack.
"""
from hypothesis import strategies as st
from gen.common import sched_line, simple_topology, stat

RULE = ("case = topology + (joiner kind, target kind, behaviour, join variant, delay) pairs + "
        "schedule; non-trivial = at least one join/free was issued while its target had not "
        "yet ended (counter join_before_end), i.e. the handshake was exercised; distinct = "
        "distinct case text")


@st.composite
def cases(draw, ctx):
    topo, npools, nxs = draw(simple_topology(max_xs=3, scheds=("basic", "basic", "prio"),
                                             pool_kinds=("fifo", "fifo", "fifo_wait", "randws")))
    lines = [draw(sched_line(ctx, extra=" tick=1000"))] + topo
    units, exts, main_ops, main_tail = [], [], [], []
    nev = 0
    npairs = draw(st.integers(1, 5))
    evlines = []
    # tasklet joiners block their whole stream: they all live on one stream and
    # only join targets of other streams, so stream-level waiting stays acyclic
    task_pool = draw(st.integers(0, npools - 1))
    for _ in range(npairs):
        jk = draw(st.sampled_from(["ult", "ult", "ult", "main", "ext", "task"]))
        tk = draw(st.sampled_from(["ult", "ult", "ult", "task"]))
        tpool = draw(st.integers(0, npools - 1))
        if jk == "task":
            if nxs == 1:
                jk = "ult"
            else:
                jpool = task_pool
                tpool = draw(st.sampled_from([p for p in range(npools) if p != task_pool]))
        if jk == "ult":
            jpool = draw(st.integers(0, npools - 1))
        behaviour = draw(st.sampled_from(["ret", "yield", "yield", "block", "exit", "cancel3",
                                          "cancelj"]))
        if tk == "task" and behaviour in ("yield", "block", "exit"):
            behaviour = "ret"
        # a non-yielding joiner (tasklet, or a ULT yield-polling a tasklet on its own
        # stream) cannot wait for a target that needs the joiner's stream
        t = len(units)
        val = t + 1
        tprog = []
        pre_join = []
        if behaviour == "yield":
            tprog.append("yieldn %d" % draw(st.integers(1, 4)))
        elif behaviour == "block":
            e = nev
            nev += 1
            evlines.append("eventual %d nbytes=0" % e)
            tprog.append("evwait %d" % e)
            setter = draw(st.sampled_from(["joiner", "main", "other"]))
            if setter == "joiner" or jk in ("main", "task"):
                pre_join.append("evset %d %d" % (e, e))
            elif setter == "main":
                main_tail.append("evset %d %d" % (e, e))
            else:
                s = None
        elif behaviour in ("cancel3", "cancelj"):
            tprog += ["work 1", "yieldn %d" % draw(st.integers(1, 5))] if tk == "ult" else ["work 2"]
        if behaviour in ("ret", "yield", "block", "exit"):
            tprog.append("payload %d" % val)
        if behaviour == "exit":
            tprog.append(draw(st.sampled_from(["exit", "exit", "selfexit"])))
            tprog.append("work 1")   # must never run
        units.append("unit %d type=%s named=1 pool=%d : %s" % (t, tk, tpool, "; ".join(tprog) or "nop"))
        main_ops.append("create %d" % t)
        if behaviour == "block" and setter == "other" and jk not in ("main", "task"):
            s = len(units)
            units.append("unit %d type=%s named=0 pool=%d : evset %d %d" %
                         (s, draw(st.sampled_from(["ult", "task"])),
                          draw(st.integers(0, npools - 1)), e, e))
            main_ops.append("create %d" % s)
        if behaviour == "cancel3":
            # before the joiner exists, so that the handle cannot have been freed
            main_ops += draw(st.sampled_from([[], ["yield"], ["work 3"]])) + ["cancel %d" % t]
        # the joiner
        delay = draw(st.sampled_from(["", "", "work 3", "yield", "yieldn 3"]))
        if jk in ("ext", "task") and delay.startswith("yield"):
            delay = "work 2"
        variant = draw(st.sampled_from(["join", "free", "free", "many", "freemany"]))
        if tk == "task" and variant in ("many", "freemany"):
            variant = "free"
        jprog = list(pre_join)
        if delay:
            jprog.append(delay)
        if behaviour == "cancelj":
            jprog.append("cancel %d" % t)
        if variant == "join":
            jprog.append("join %d" % t)
        elif variant == "free":
            jprog.append("free %d" % t)
        elif variant == "many":
            jprog.append("joinmany %d" % t)
        else:
            jprog.append("freemany %d" % t)
        if behaviour in ("ret", "yield", "block", "exit"):
            jprog.append("chkpayload %d %d" % (t, val))
        if variant in ("join", "many") and draw(st.booleans()):
            jprog.append("free %d" % t)
        if jk == "main":
            main_tail += jprog
        elif jk == "ext":
            # the handle must exist before the external thread uses it
            f = 20 + t
            main_ops.append("fset %d" % f)
            exts.append(["fwait %d" % f] + jprog)
        else:
            j = len(units)
            units.append("unit %d type=%s named=0 pool=%d : %s" % (j, jk, jpool, "; ".join(jprog)))
            main_ops.append("create %d" % j)
    lines += evlines
    for i, p in enumerate(exts):
        lines.append("ext %d : %s" % (i, "; ".join(p)))
    lines += units
    lines.append("main : " + "; ".join(main_ops + main_tail))
    return "\n".join(lines) + "\n"


def render(case, ctx):
    return case


def judge(text, res, ctx):
    return None


def classify(text, res, ctx):
    out = []
    for k in ("join_before_end", "joined_cancelled", "exits", "join_many", "cancels",
              "cancel_after_end", "cancel_while_running"):
        if stat(res, k):
            out.append(k)
    for k in ("type=task", "\next ", "kind=fifo_wait", "kind=randws"):
        if k in text:
            out.append(k.strip())
    return out


def nontrivial(text, res, ctx):
    return stat(res, "join_before_end") >= 1


PLAN = {
    "quick": [("coarse", 9, 300), ("san", 2, 100), ("nopool", 3, 100), ("native", 2, 150)],
    "thorough": [("coarse", 5, 6000), ("fine", 6, 3000), ("san", 1, 1500), ("nopool", 3, 1500),
                 ("native", 1, 2500)],
}
