"""C01 - every work unit runs exactly once to completion; none is lost or duplicated.

Generated: a topology (1..4 streams; BASIC / BASIC_WAIT / PRIO / RANDWS schedulers over
1..3 pools each; FIFO / FIFO_WAIT / RANDWS pools of every access mode the placement
rules of gen/topo.py allow; pools shared between streams; stacked schedulers) and a
fork-join program: named and unnamed ULTs and tasklets created by the primary ULT,
by ULTs, by tasklets and by external threads through create / create_to /
create_on_xstream / create_many / revive, whose bodies yield, block on eventuals and a mutex, create
children, and join or free them.
Oracle (executor): per incarnation exactly one start with the given function and
argument, no start while running, start on a stream whose scheduler serves the unit's
pool (except starts by directed switches), join/free return after the end, every unit
ended at ABT_finalize, pools empty (size, total_size, is_empty) once everything finished.
Termination argument: every actor issues all its creations before its first blocking
op; eventual setters never block; critical sections contain no blocking op; joins form
a forest (creators join their own children); yield-polling joins (ULT joins tasklet)
only where the fixed pool priority of BASIC/PRIO cannot starve the tasklet.
"""
from hypothesis import strategies as st
from gen.common import sched_line, stat
from gen.topo import topologies

RULE = ("variant xsjoin: see gen/c06.py (non-trivial = a stream join issued with unfinished units); otherwise: case = topology + creation tree + bodies + schedule; non-trivial = at least 3 units "
        "started and at least one of: >= 2 streams, a unit yielded (re-push between pop and "
        "pop), a stacked scheduler ran units, a pool shared by two streams; distinct = distinct "
        "case text")


class Act:
    def __init__(self, kind, idx=None, pool=None, named=False):
        self.kind = kind      # main / ext / ult / task
        self.idx = idx
        self.pool = pool
        self.named = named
        self.creates = []     # op strings
        self.mid = []         # non-blocking body ops
        self.blocking = []    # blocking ops (after all creates)
        self.children = []
        self.loc = None       # stream it certainly runs on
        self.directed = False
        self.in_sub = False


def can_produce(t, creator, p, spmc_owner):
    c = t.cls(p)
    if t.pools[p]["sub"] is not None:
        # pools of a stacked scheduler: filled by main before it is pushed, or
        # by units running inside that same stacked scheduler
        if creator.kind == "main":
            return True
        return creator.in_sub and creator.pool is not None and \
            t.pools[creator.pool]["sub"] == t.pools[p]["sub"]
    if c in ("mpmc", "mpsc"):
        return True
    if c == "local":
        return creator.loc is not None and creator.loc == t.home(p)
    if c == "spmc":
        return spmc_owner.get(p) in (None, id(creator))
    return False


@st.composite
def cases(draw, ctx):
    if ctx.get("variant") == "stacked":
        return draw(stacked_cases(ctx))
    if ctx.get("variant") == "resumerace":
        # suspended ULTs resumed from other threads while their stream is being joined
        # (gen/c11.py, race): the resumed unit must still run before the join returns
        from gen import c11
        return draw(c11.race(ctx)) + "note c01-resumerace\n"
    if ctx.get("variant") == "xsjoin":
        # "... or before ABT_xstream_join/free of the only stream serving its pool returns":
        # the unjoined-unit programs of gen/c06.py (units blocked / being resumed by other
        # threads while their stream is joined)
        from gen import c06
        return draw(c06.cases(ctx)) + "note c01-xsjoin\n"
    return draw(cases_main(ctx))


@st.composite
def stacked_cases(draw, ctx):
    """Stacked schedulers that have little or nothing to do: ABT_pool_add_sched pushes the
    scheduler's ULT into a pool of another running stream, where it may start, find its
    pools empty, finish and be freed while the caller is still inside ABT_pool_add_sched.
    Units are created in the stacked scheduler's pools before it is added; nothing is
    pushed there afterwards (the pools die with the scheduler)."""
    nxs = draw(st.integers(2, 4))
    if ctx.get("native") or draw(st.integers(0, 3)) == 0:
        lines = [draw(sched_line(ctx, extra=" tick=10000"))]
    else:
        # these runs take 2-6 thousand scheduling points: PCT change points placed inside
        lines = ["cfg seed=%d strat=pct d=%d pctlen=%d tick=10000" %
                 (draw(st.integers(0, 2 ** 31 - 1)), draw(st.integers(1, 3)),
                  draw(st.sampled_from([2500, 4000, 6000])))]
    lines += ["pool 0 kind=fifo access=mpmc"]
    for i in range(1, nxs):
        lines.append("pool %d kind=%s access=mpmc" % (i, draw(st.sampled_from(["fifo", "fifo", "fifo_wait", "randws"]))))
    np_ = nxs
    nsub = draw(st.integers(2, 6))
    subs, units, main = [], [], []
    for sidx in range(nsub):
        k = draw(st.sampled_from([1, 1, 2]))
        pools = list(range(np_, np_ + k))
        np_ += k
        for p in pools:
            lines.append("pool %d kind=fifo access=mpmc" % p)
        subs.append("sub %d sched=%s pools=%s" % (sidx, draw(st.sampled_from(["basic", "basic", "prio", "randws"])),
                                                   ",".join(map(str, pools))))
        for p in pools:
            for _ in range(draw(st.sampled_from([0, 0, 1, 1, 2]))):
                u = len(units)
                units.append("unit %d type=%s named=0 pool=%d : %s" %
                             (u, draw(st.sampled_from(["ult", "ult", "task"])), p,
                              draw(st.sampled_from(["nop", "nop", "work 1", "work 3"]))))
                main.append("create %d" % u)
    lines.append("xs 0 sched=default pools=0")
    for i in range(1, nxs):
        lines.append("xs %d sched=%s pools=%d" % (i, draw(st.sampled_from(["basic", "basic", "prio", "basic_wait"]))
                                                  if False else "basic", i))
    lines += subs
    # some ordinary work on the hosting streams so that their schedulers are busy or idle
    for i in range(1, nxs):
        for _ in range(draw(st.integers(0, 2))):
            u = len(units)
            units.append("unit %d type=ult named=0 pool=%d : %s" %
                         (u, i, draw(st.sampled_from(["yield", "work 2", "yield; yield", "nop"]))))
            main.append("create %d" % u)
    order = draw(st.permutations(list(range(nsub))))
    for sidx in order:
        main.append("addsched %d %d" % (draw(st.integers(1, nxs - 1)), sidx))
        if draw(st.integers(0, 2)) == 0:
            main.append(draw(st.sampled_from(["yield", "work 1"])))
    lines += units
    lines.append("main : " + "; ".join(main))
    lines.append("note nxs=%d shared=0 subs=%d" % (nxs, nsub))
    lines.append("note c01-stacked")
    return "\n".join(lines) + "\n"


@st.composite
def cases_main(draw, ctx):
    t = draw(topologies(max_xs=4))
    nunits = draw(st.integers(3, 20))
    main = Act("main")
    main.loc = 0
    exts = [Act("ext", i) for i in range(draw(st.sampled_from([0, 0, 1, 2])))]
    if t.cls(t.xs[0]["pools"][0]) == "local":
        exts = []   # an external thread could resume the primary ULT into a private pool
    actors = [main] + exts
    units = []
    spmc_owner = {}
    sub_filled = set()
    nev = draw(st.integers(0, 2))
    ev_setter = [None] * nev
    use_mutex = draw(st.booleans())
    for ui in range(nunits):
        kind = draw(st.sampled_from(["ult", "ult", "ult", "task"]))
        # choose a creator that can legally produce into some pool
        order = draw(st.permutations(list(range(len(actors)))))
        placed = False
        for ci in order[:6]:
            cr = actors[ci]
            if cr.kind == "task" and draw(st.booleans()):
                continue
            pools = [p for p in range(len(t.pools)) if can_produce(t, cr, p, spmc_owner)]
            if not pools:
                continue
            p = draw(st.sampled_from(pools))
            u = Act(kind, ui, p, named=draw(st.booleans()))
            u.in_sub = t.pools[p]["sub"] is not None
            if t.cls(p) == "spmc":
                spmc_owner[p] = id(cr)
            if not u.in_sub and t.home(p) is not None:
                u.loc = t.home(p)
            how = "create"
            if kind == "ult" and cr.kind in ("ult", "main") and not u.in_sub and \
                    not cr.in_sub and draw(st.integers(0, 3)) == 0:
                if t.cls(p) in ("mpmc", "mpsc") or (t.cls(p) == "local" and cr.loc == t.home(p)):
                    how = "createto"
                    if cr.loc is None or cr.loc != t.home(p):
                        u.loc = None   # first slice runs on the creator's stream
                    u.directed = True
            elif not u.in_sub and draw(st.integers(0, 5)) == 0:
                # create_on_xstream pushes to the first pool of the stream's scheduler
                xi = draw(st.integers(0, len(t.xs) - 1))
                p0 = t.xs[xi]["pools"][0]
                if can_produce(t, cr, p0, spmc_owner) and t.cls(p0) != "spmc":
                    how = "createon %d"
                    u.pool = p = p0
                    u.loc = t.home(p0)
                    how = "createon"
                    cr.creates.append("createon %d %d" % (ui, xi))
            if how != "createon":
                cr.creates.append("%s %d" % (how, ui))
            cr.children.append(u)
            if u.in_sub:
                sub_filled.add(t.pools[p]["sub"])
            units.append(u)
            actors.append(u)
            placed = True
            break
        if not placed:
            break
    # bodies
    for u in units:
        c = t.cls(u.pool)
        may_yield = u.kind == "ult" and c != "spmc"
        may_block = u.kind == "ult" and c in ("mpmc", "mpsc") and not u.in_sub and not u.directed
        for _ in range(draw(st.integers(0, 3))):
            ch = ["work"]
            if may_yield:
                ch += ["yield", "yield"]
            if use_mutex and may_block:
                ch.append("cs")
            k = draw(st.sampled_from(ch))
            if k == "work":
                u.mid.append("work %d" % draw(st.integers(1, 3)))
            elif k == "yield":
                u.mid.append("yield")
            else:
                u.mid += ["lock 0"] + (["yield"] if draw(st.booleans()) else ["work 1"]) + ["unlock 0"]
        u.may_block = may_block
    main.may_block = True
    for e in exts:
        e.may_block = True
    # eventuals: one setter each, which never blocks before setting
    for e in range(nev):
        cand = [a for a in actors if not (a.kind in ("ult", "task") and a.in_sub and False)]
        s = draw(st.sampled_from(cand))
        s.mid.append("evset %d %d" % (e, e))
        for w in actors:
            if w is not s and w.kind in ("ult", "ext", "main") and getattr(w, "may_block", False) \
                    and draw(st.integers(0, 3)) == 0:
                w.blocking.append("evwait %d" % e)
    # joins: creators join (some of) their named children
    for a in actors:
        for chd in a.children:
            if not chd.named or a.kind == "task":
                continue
            if chd.in_sub:
                continue
            if draw(st.integers(0, 3)) == 0:
                continue
            if a.kind in ("ult",):
                if a.in_sub or not getattr(a, "may_block", False) and t.cls(a.pool) != "local":
                    continue
                if t.cls(a.pool) == "local" and not (chd.loc is not None and chd.loc == a.loc
                                                     and not chd.directed):
                    continue
                if t.cls(a.pool) == "spmc":
                    continue
            if a.kind in ("ult", "main") and chd.kind == "task":
                jp = a.pool if a.kind == "ult" else t.xs[0]["pools"][0]
                if not t.poll_safe(jp, chd.pool):
                    continue
            op = draw(st.sampled_from(["join", "free", "free"]))
            a.blocking.append("%s %d" % (op, chd.idx))
            if op == "join" and draw(st.integers(0, 2)) == 0 and not chd.directed \
                    and not chd.creates and not any("evset" in m for m in chd.mid) \
                    and t.cls(chd.pool) != "spmc" and can_produce(t, a, chd.pool, spmc_owner):
                a.blocking += ["revive %d %d" % (chd.idx, chd.pool), "free %d" % chd.idx]
    # ABT_thread_create_many: merge runs of plain creations of default ULTs of equal
    # namedness (each keeps its own pool, function and argument)
    byidx = {u.idx: u for u in units}
    for a in actors:
        merged, run = [], []

        def flush():
            if len(run) >= 2:
                merged.append("createmany " + " ".join(map(str, run)))
            else:
                merged.extend("create %d" % r for r in run)
            del run[:]
        for c in a.creates:
            w = c.split()
            ok = w[0] == "create" and byidx[int(w[1])].kind == "ult"
            if ok and run and (byidx[run[0]].named != byidx[int(w[1])].named or len(run) == 4):
                flush()
            if ok and (run or draw(st.integers(0, 2)) == 0):
                run.append(int(w[1]))
            else:
                flush()
                merged.append(c)
        flush()
        a.creates = merged
    lines = [draw(sched_line(ctx, extra=" tick=10000"))] + t.lines()
    if nev:
        for e in range(nev):
            lines.append("eventual %d nbytes=%d" % (e, draw(st.sampled_from([0, 8]))))
    if use_mutex:
        lines.append("mutex 0 kind=dyn")
    for e in exts:
        lines.append("ext %d : %s" % (e.idx, "; ".join(e.creates + e.mid + e.blocking) or "nop"))
    for u in units:
        lines.append("unit %d type=%s named=%d pool=%d : %s" %
                     (u.idx, u.kind, int(u.named), u.pool,
                      "; ".join(u.creates + u.mid + u.blocking) or "nop"))
    adds = ["addsched %d %d" % (s["host"], i) for i, s in enumerate(t.subs) if i in sub_filled]
    lines.append("main : " + "; ".join(main.creates + adds + main.mid + main.blocking))
    lines.append("note nxs=%d shared=%d subs=%d" % (
        len(t.xs), sum(1 for p in range(len(t.pools)) if len(t.consumers(p)) > 1), len(adds)))
    return "\n".join(lines) + "\n"


def render(case, ctx):
    return case


def judge(text, res, ctx):
    return None


def classify(text, res, ctx):
    import re
    out = []
    m = re.search(r"note nxs=(\d+) shared=(\d+) subs=(\d+)", text)
    if m:
        if int(m.group(1)) >= 2:
            out.append("multi_stream")
        if int(m.group(2)):
            out.append("shared_pool")
        if int(m.group(3)):
            out.append("stacked_sched")
    if "note c01-xsjoin" in text:
        out.append("xsjoin_variant")
    for k in ("create_to", "create_many", "revives", "join_before_end", "contended_lock", "set_with_waiter",
              "xsjoin_with_pending_units"):
        if stat(res, k):
            out.append(k)
    for k in ("kind=randws", "kind=fifo_wait", "access=priv", "access=spsc", "access=spmc",
              "sched=prio", "sched=randws", "sched=basic_wait", "type=task", "createon", "\next "):
        if k in text:
            out.append(k.strip())
    return out


def nontrivial(text, res, ctx):
    if "note c01-resumerace" in text:
        return stat(res, "resumes") >= 1 and "xs" in text.split("main :")[-1]
    if "note c01-stacked" in text:
        return stat(res, "stacked_scheds") >= 1
    if "note c01-xsjoin" in text:
        return stat(res, "xsjoin_with_pending_units") >= 1
    import re
    m = re.search(r"note nxs=(\d+) shared=(\d+) subs=(\d+)", text)
    rich = m and (int(m.group(1)) >= 2 or int(m.group(2)) or int(m.group(3)))
    return stat(res, "unit_starts") >= 3 and (rich or "yield" in text)


PLAN = {
    "quick": [("coarse", 6, 250), ("fine", 3, 200), ("san", 3, 80), ("native", 2, 150),
              ("coarse", 3, 250, "xsjoin"), ("native", 1, 150, "xsjoin"),
              ("coarse", 3, 300, "resumerace"), ("san", 4, 220, "stacked"), ("nopool", 3, 220, "stacked"),
              ("coarse", 1, 200, "stacked")],
    "thorough": [("coarse", 6, 5000), ("fine", 6, 3000), ("san", 2, 1500), ("nopool", 1, 1000),
                 ("native", 1, 2500), ("coarse", 3, 5000, "xsjoin"), ("fine", 2, 3000, "xsjoin"),
                 ("coarse", 3, 5000, "resumerace"), ("san", 3, 2000, "stacked"), ("nopool", 3, 2000, "stacked"),
                 ("fine", 2, 2000, "stacked")],
}
