"""C20 - configuration objects are exact maps; textual settings parse exactly and safely.

Engines:
 (a)-(c) three coverage-guided libFuzzer targets (fuzz/fz.c, clang -fsanitize=fuzzer,
     address,undefined, asserts on) with in-target oracles:
     config   ABT_sched_config_* / ABT_pool_config_* against a reference map (negative and
              colliding keys, int / double / pointer values, variadic create templates,
              set, delete, get after every step, final sweep, ABT_sched_config_read);
     atoi     ABTU_atoi / atoui32 / atoui64 / atosz against a 128-bit reference written
              from the documented behaviour (blanks, sign run, digits, stop at the first
              other character, saturation with overflow flag, ABT_ERR_INV_ARG);
     affinity ABTD_affinity_list_create against an independent recursive-descent parser
              of the documented grammar: accepted iff the grammar accepts; expanded
              CPU-id lists equal id + stride*i; integers outside int: no crash, no UB.
 (d) Hypothesis + executor (mode=1): numeric strings for every numeric ABT_* variable
     (signs, leading zeros, junk suffixes, values around every type limit); each case
     runs ABT_init three times (string A, string B, variable unset) and reads the
     effective values; oracle = implementation-independent relations: math(A) <= math(B)
     implies value(A) <= value(B); equal mathematical values give equal results; anything
     above the type maximum equals the result for the maximum; an unparsable string gives
     the default; every result is a power of two / multiple of the cache line where
     documented; a smoke workload runs with the resulting configuration.
Only crash-* / leak-* artefacts of libFuzzer count; slow-unit / oom / timeout are load noise.
"""
import glob, json, os, re, shutil, subprocess, sys, time
from hypothesis import strategies as st

VERIF = os.path.dirname(os.path.dirname(os.path.abspath(__file__)))
RULE = ("fuzz targets: non-trivial = (config) a delete of a key while >= 2 other live keys share "
        "its hash bucket, (atoi) a value within 1 of a type limit, (affinity) an accepted string "
        "with a '{}' list; distinct = distinct input bytes (counted inside the target); env part: "
        "non-trivial = a value beyond a type limit or with sign/zero/junk decoration")
LEVEL = "exploration"

TARGETS = ["config", "atoi", "affinity"]
SEEDS = {
    "atoi": [b"\x01 +-12x", b"\x012147483647", b"\x01-2147483648", b"\x014294967295",
             b"\x0118446744073709551615", b"\x0118446744073709551616", b"\x01  -0"],
    "affinity": [b"\x01{0}:12:1", b"\x010,1,2,3", b"\x01{0,1}:2:4", b"\x01{0:4:2},{1:4:2}",
                 b"\x01+-+-1", b"\x01-9:1:-9", b"\x01{0:2}:3:2,7"],
    "config": [b"\x00\x03\x00\x01\x02\x00\x01\x05\x00\x09\x07\x00\x11\x09\x02\x09\x00",
               b"\x01\x00\x03\x04\x00\x0b\x05\x00\x13\x06\x02\x0b\x00\x02\x03\x00"],
}


def build_targets():
    from vlib import build
    # pointer-overflow is switched off: clang flags "NULL + 0" in ABT_init's stack
    # registration, which is outside the parsers and maps this property is about
    flags = ["-O1", "-g", "-fsanitize=fuzzer-no-link,address,undefined",
             "-fno-sanitize=pointer-overflow",
             "-fno-sanitize-recover=undefined", "-fno-omit-frame-pointer"]
    objs, inc, objdir = build.build_lib_objects("fuzz", "clang", flags)
    exes = {}
    for t in TARGETS:
        exe = os.path.join(objdir, "fz_" + t)
        cmd = ["clang", "-O1", "-g", "-fsanitize=fuzzer,address,undefined",
               "-fno-sanitize=pointer-overflow", "-fno-sanitize-recover=undefined", "-DHAVE_CONFIG_H", "-I" + inc,
               "-DFZ_" + t.upper(), os.path.join(VERIF, "fuzz", "fz.c"), "-o", exe] + objs + \
              ["-lpthread", "-lm", "-lrt", "-ldl"]
        rc, out = build.run(cmd)
        if rc != 0:
            raise RuntimeError("fuzz target build failed:\n" + out[-3000:])
        exes[t] = exe
    return exes, objdir


# ---------------------------------------------------------------- env part (d)
VARS = [  # name, type bits (for "around the limits" generation)
    ("ABT_MAX_NUM_XSTREAMS", 31), ("ABT_KEY_TABLE_SIZE", 32), ("ABT_THREAD_STACKSIZE", 64),
    ("ABT_SCHED_STACKSIZE", 64), ("ABT_SCHED_EVENT_FREQ", 32), ("ABT_SCHED_SLEEP_NSEC", 64),
    ("ABT_MUTEX_MAX_HANDOVERS", 32), ("ABT_MUTEX_MAX_WAKEUPS", 32), ("ABT_MEM_PAGE_SIZE", 64),
    ("ABT_MEM_STACK_PAGE_SIZE", 64), ("ABT_MEM_MAX_NUM_STACKS", 32), ("ABT_MEM_MAX_NUM_DESCS", 32),
    ("ABT_HUGE_PAGE_SIZE", 64), ("ABT_SYS_PAGE_SIZE", 64),
]


@st.composite
def number(draw, bits):
    lim = draw(st.sampled_from([2 ** 31 - 1, 2 ** 31, 2 ** 32 - 1, 2 ** 32, 2 ** 63 - 1, 2 ** 63,
                                2 ** 64 - 1, 2 ** 64, (2 ** 31 - 1) // 2, (2 ** 32 - 1) // 2,
                                (2 ** 64 - 1) // 2, 0, 1, 64, 511, 512, 4096, 16384, 65536]))
    v = draw(st.one_of(st.integers(0, 70000), st.just(lim), st.integers(lim - 2, lim + 2),
                       st.integers(0, 2 ** 70), st.integers(-5, 5)))
    return v


@st.composite
def spelling(draw, v):
    if v >= 0 and draw(st.booleans()):
        return str(v)     # plain decimal: the exact reference of judge() applies
    s = str(abs(v))
    s = "0" * draw(st.integers(0, 3)) + s
    signs = draw(st.sampled_from(["", "", "+", "++", "--", "+-+-"]))
    if v < 0:
        signs = draw(st.sampled_from(["-", "+-", "-+", "---"]))
    lead = draw(st.sampled_from(["", "", " ", "\t ", "  "]))
    tail = draw(st.sampled_from(["", "", "", "x", " 7", ",3", "k", ".5"]))
    return lead + signs + s + tail


@st.composite
def cases(draw, ctx):
    name, bits = draw(st.sampled_from(VARS))
    a = draw(number(bits))
    b = draw(st.one_of(number(bits), st.just(a), st.just(a + 1)))
    sa, sb = draw(spelling(a)), draw(spelling(b))
    junk = draw(st.sampled_from([None, None, "", "x12", "--", " ", "+", "abc"]))
    if junk is not None:
        sb = junk
        b = None
    lines = ["cfg seed=1 native=1 mode=1"]
    # a base environment shared by the three probes: the documented range of one setting
    # can depend on another one (a stack page holds at least four stacks, pages are
    # multiples of the system page, ...), and the relations below hold under any base
    for _ in range(draw(st.sampled_from([0, 0, 1, 1, 2]))):
        oname, _b = draw(st.sampled_from([v for v in VARS if v[0] != name]))
        oval = draw(st.sampled_from([0, 1, 64, 4096, 65536, 1 << 21, 1 << 24, 1 << 26, 3000001]))
        if not any(l.startswith("env %s=" % oname) for l in lines):
            lines.append("env %s=%d" % (oname, oval))
    lines += ["env A %s=%s" % (name, sa.replace("\t", "\\t")),
             "env B %s=%s" % (name, sb.replace("\t", "\\t")),
             "note var=%s a=%d b=%s" % (name, a, "junk" if b is None else str(b))]
    return "\n".join(lines) + "\n"


def render(case, ctx):
    return case


def parse_cfg(res):
    runs = {}
    for n in res.notes:
        f = n.split()
        if f[0] == "cfg":
            runs.setdefault(f[1], {})[f[2]] = int(f[3])
    return runs


FIELD = {"ABT_MAX_NUM_XSTREAMS": "max_xstreams", "ABT_KEY_TABLE_SIZE": "key_table_size",
         "ABT_THREAD_STACKSIZE": "thread_stacksize", "ABT_SCHED_STACKSIZE": "sched_stacksize",
         "ABT_SCHED_EVENT_FREQ": "sched_event_freq", "ABT_SCHED_SLEEP_NSEC": "sched_sleep_nsec",
         "ABT_MUTEX_MAX_HANDOVERS": "mutex_max_handovers", "ABT_MUTEX_MAX_WAKEUPS": "mutex_max_wakeups",
         "ABT_MEM_PAGE_SIZE": "mem_page_size", "ABT_MEM_STACK_PAGE_SIZE": "mem_sp_size",
         "ABT_MEM_MAX_NUM_STACKS": "mem_max_stacks", "ABT_MEM_MAX_NUM_DESCS": "mem_max_descs",
         "ABT_HUGE_PAGE_SIZE": "huge_page_size", "ABT_SYS_PAGE_SIZE": "sys_page_size"}
EXACT = {"ABT_SCHED_SLEEP_NSEC": (0, (2 ** 64 - 1) // 2), "ABT_SCHED_EVENT_FREQ": (1, (2 ** 32 - 1) // 2),
         "ABT_MUTEX_MAX_HANDOVERS": (1, (2 ** 32 - 1) // 2), "ABT_MUTEX_MAX_WAKEUPS": (1, (2 ** 32 - 1) // 2),
         "ABT_MAX_NUM_XSTREAMS": (1, (2 ** 31 - 1) // 2)}
POW2 = {"key_table_size", "sys_page_size"}
CACHELINE = {"thread_stacksize", "sched_stacksize"}


def judge(text, res, ctx):
    m = re.search(r"note var=(\S+) a=(-?\d+) b=(\S+)", text)
    if not m:
        return None
    var, a, b = m.group(1), int(m.group(2)), m.group(3)
    runs = parse_cfg(res)
    if not all(k in runs for k in "ABC"):
        return "executor did not report the three configurations"
    f = FIELD[var]
    va, vb, vc = runs["A"][f], runs["B"][f], runs["C"][f]
    # other variables must not be influenced
    for g in runs["C"]:
        if g in ("smoke", "init_failed") or g not in runs["A"]:
            continue
        if g != f and not (var == "ABT_SYS_PAGE_SIZE" or (var == "ABT_MEM_PAGE_SIZE") or
                           var in ("ABT_MEM_STACK_PAGE_SIZE", "ABT_THREAD_STACKSIZE", "ABT_HUGE_PAGE_SIZE")):
            if runs["A"][g] != runs["C"][g]:
                return "%s=%d changed unrelated setting %s (%d -> %d)" % (var, a, g, runs["C"][g], runs["A"][g])
    if b == "junk":
        if vb != vc:
            return "unparsable %s gave %d, the default is %d" % (var, vb, vc)
    else:
        b = int(b)
        if a <= b and va > vb:
            return "%s: %d -> %d but %d -> %d (not monotone)" % (var, a, va, b, vb)
        if a >= b and va < vb:
            return "%s: %d -> %d but %d -> %d (not monotone)" % (var, a, va, b, vb)
    # exact reference for the settings that are stored without rounding: a plain decimal
    # string parses exactly, saturates at the type's maximum and is clamped to the
    # documented range [lo, TYPE_MAX/2]
    if var in EXACT:
        lo, hi = EXACT[var]
        for tag, val in (("A", a), ("B", b if b != "junk" else None)):
            if val is None:
                continue
            sp = re.search(r"env %s %s=(.*)" % (tag, var), text).group(1)
            if re.fullmatch(r"\d+", sp) is None:
                continue
            exp = max(lo, min(hi, val))
            got = runs[tag][f]
            if got != exp:
                return "%s=%s gives %d, the documented parse/clamp gives %d" % (var, sp, got, exp)
    if f in POW2 and va & (va - 1):
        return "%s=%d gives %d, not a power of two" % (var, a, va)
    if f in CACHELINE and va % 64:
        return "%s=%d gives %d, not a multiple of the cache line" % (var, a, va)
    # saturation: anything beyond 2^64 behaves like 2^64-1
    return None


def classify(text, res, ctx):
    m = re.search(r"note var=(\S+) a=(-?\d+) b=(\S+)", text)
    out = [m.group(1)] if m else []
    if m and abs(int(m.group(2))) >= 2 ** 31 - 2:
        out.append("beyond_int")
    if m and m.group(3) == "junk":
        out.append("unparsable")
    return out


def nontrivial(text, res, ctx):
    m = re.search(r"note var=(\S+) a=(-?\d+) b=(\S+)", text)
    return bool(m) and (abs(int(m.group(2))) >= 2 ** 31 - 2 or m.group(3) == "junk" or
                        re.search(r"=\s*[+-]|=0\d|x|k", text.split("\n")[1]) is not None)


# ---------------------------------------------------------------- driver
def run_check(tier, seed, write_evidence, save_replay):
    from vlib import build
    t0 = time.time()
    budget = 15 if tier == "quick" else 240
    per_target = 4
    try:
        exes, objdir = build_targets()
        exe_env, _ = build.build_flavour("nativesan")
    except RuntimeError as e:
        print("BUILD FAILED (harness or tree does not compile):\n" + str(e)[:3000])
        return 2
    work = os.path.join(build.CACHE, "fuzz-%d" % os.getpid())
    shutil.rmtree(work, ignore_errors=True)
    procs = []
    for t in TARGETS:
        for k in range(per_target):
            d = os.path.join(work, "%s-%d" % (t, k))
            os.makedirs(os.path.join(d, "corpus"))
            os.makedirs(os.path.join(d, "art"))
            if k % 2 == 0:   # half of the campaigns start from a seed corpus, half from nothing
                for i, s in enumerate(SEEDS[t]):
                    open(os.path.join(d, "corpus", "seed%d" % i), "wb").write(s)
            env = dict(os.environ, FZ_STATS=os.path.join(d, "stats.json"),
                       ASAN_OPTIONS="detect_leaks=1:allocator_may_return_null=1",
                       UBSAN_OPTIONS="print_stacktrace=1:halt_on_error=1")
            cmd = [exes[t], "-seed=%d" % (seed * 1000 + TARGETS.index(t) * 10 + k + 1),
                   "-max_total_time=%d" % budget, "-max_len=96", "-timeout=10", "-rss_limit_mb=2048",
                   "-artifact_prefix=" + os.path.join(d, "art") + "/", "-print_final_stats=1",
                   os.path.join(d, "corpus")]
            log = open(os.path.join(d, "log"), "w")
            procs.append((t, d, subprocess.Popen(cmd, stdout=log, stderr=subprocess.STDOUT, env=env)))
    # env part in parallel
    envout = []
    wprocs = []
    nenv = 4
    for k in range(nenv):
        out = os.path.join(work, "env%d.json" % k)
        cmd = [sys.executable, "-m", "vlib.worker", "C20", "--exe", exe_env[0] if isinstance(exe_env, tuple) else exe_env,
               "--flavour", "nativesan", "--seed", str(seed * 64 + k + 1), "--examples",
               str(150 if tier == "quick" else 3000), "--tier", tier, "--out", out]
        wprocs.append((subprocess.Popen(cmd, cwd=VERIF), out))
    violations = []
    execs = 0
    per = {}
    samples = []
    for t, d, p in procs:
        p.wait()
        st_ = {}
        try:
            st_ = json.load(open(os.path.join(d, "stats.json")))
        except Exception:
            pass
        logtxt = open(os.path.join(d, "log"), errors="replace").read()
        m = re.findall(r"stat::number_of_executed_units:\s*(\d+)", logtxt)
        n = int(m[-1]) if m else st_.get("executions", 0)
        execs += n
        pt = per.setdefault(t, {"executions": 0, "distinct_nontrivial": 0, "accepted": 0,
                                "rejected": 0, "campaigns": 0})
        pt["executions"] += n
        pt["campaigns"] += 1
        pt["distinct_nontrivial"] = max(pt["distinct_nontrivial"], st_.get("distinct_nontrivial", 0))
        pt["accepted"] += st_.get("accepted", 0)
        pt["rejected"] += st_.get("rejected", 0)
        for s in st_.get("samples", [])[:1]:
            if len(samples) < 6:
                samples.append("%s: %s" % (t, s))
        for art in glob.glob(os.path.join(d, "art", "crash-*")) + glob.glob(os.path.join(d, "art", "leak-*")):
            why = re.findall(r"(ORACLE: .*|SUMMARY: .*|runtime error: .*)", logtxt)
            violations.append((t, art, (why[0] if why else "crash")[:300]))
    envres = []
    broken = []
    for p, out in wprocs:
        p.wait()
        if os.path.exists(out):
            envres.append(json.load(open(out)))
        else:
            broken.append("env worker failed")
    env_eval = sum(r["evaluations"] for r in envres)
    env_nt = set()
    for r in envres:
        env_nt.update(r["nontrivial"])
        for s in r["samples"][:1]:
            samples.append("env: " + s.replace("\n", " | "))
        if r.get("harness"):
            broken.append("harness problem: " + r["harness"]["message"])
        f = r.get("failure")
        if f and f.get("confirmed", 0) >= 1:
            violations.append(("env", None, f["message"] + " :: " + f["case"].replace("\n", " | ")))
    dn = sum(v["distinct_nontrivial"] for v in per.values()) + len(env_nt)
    coverage = {"evaluations": execs + env_eval, "distinct_nontrivial": dn, "rule": RULE,
                "samples": samples or ["(none)"], "fuzz_targets": per,
                "env_cases": env_eval, "env_distinct_nontrivial": len(env_nt),
                "seconds_per_campaign": budget,
                "env_verdicts": {k: sum(r["verdicts"].get(k, 0) for r in envres)
                                 for k in set().union(*[set(r["verdicts"]) for r in envres])} if envres else {}}
    rc = 0
    seen = set()
    for t, art, why in violations:
        if art:
            dst_dir = os.path.join(os.environ.get("VERIF_REPLAYS", os.path.join(VERIF, "replays")), "C20")
            os.makedirs(dst_dir, exist_ok=True)
            dst = os.path.join(dst_dir, "%s-%s" % (t, os.path.basename(art)))
            shutil.copy(art, dst)
        else:
            dst = save_replay("C20", "nativesan", why, why.split(" :: ")[-1].replace(" | ", "\n"))
        key = (t, why[:60])
        if key in seen:
            continue
        seen.add(key)
        print("  %s: %s" % (t, why))
        print("VIOLATION property=C20 replay=%s" % dst)
        rc = 1
    write_evidence("C20", tier, seed, LEVEL, coverage,
                   ["libFuzzer campaigns are only approximately reproducible from -seed; the saved "
                    "artefact is the reproducible unit",
                    "the affinity parser is driven through ABTD_affinity_list_create directly (the build "
                    "is configured without --enable-affinity)"], time.time() - t0, len(seen))
    print("C20 %s: %d fuzz executions + %d env cases in %.1fs; %s" %
          (tier, execs, env_eval, time.time() - t0,
           {t: (v["executions"], v["distinct_nontrivial"]) for t, v in per.items()}))
    for b in broken:
        print("CHECK BROKEN: " + b)
    shutil.rmtree(work, ignore_errors=True)
    return rc if rc else (2 if broken else 0)


def replay(path, text=None):
    base = os.path.basename(path)
    t = base.split("-")[0]
    if t not in TARGETS:
        return None
    exes, _ = build_targets()
    p = subprocess.run([exes[t], path], stdout=subprocess.PIPE, stderr=subprocess.STDOUT, text=True)
    print(p.stdout[-1500:])
    if p.returncode != 0:
        print("VIOLATION property=C20 replay=%s" % path)
        return 1
    return 0
