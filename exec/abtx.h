/* abtx: executor of generated Argobots programs (DESIGN.md section 3.2) */
#ifndef ABTX_H
#define ABTX_H
#define _GNU_SOURCE
#include <abt.h>
#include <pthread.h>
#include <stdio.h>
#include <stdlib.h>
#include <stdint.h>
#include <string.h>
#include <stdarg.h>
#include <unistd.h>
#include <errno.h>
#include "dsched.h"

#define MAXU 96
#define MAXP 16
#define MAXX 8
#define MAXO 8
#define MAXOPS 192
#define MAXEXT 16
#define MAXFLAG 64
#define MAXKEY 48

enum { A_MAIN = 0, A_EXT = 1, A_UNIT = 2 };
enum { U_ULT = 0, U_TASK = 1 };

typedef struct {
    int code;
    long a[4];
} op_t;

typedef struct actor {
    int kind, id;
    op_t ops[MAXOPS];
    int nops;
    volatile int pc_heap;
    /* unit attributes */
    int utype, named, pool, migratable, has_cb;
    long stacksize; /* 0 = default */
    int stackkind;  /* 0 default/mempool, 1 size only, 2 user stack */
    long stackoff;
    ABT_thread h; /* valid for named units */
    void *ustack;
    /* dynamic state */
    volatile int created, starts, ends, incarnation, freed, joined, cancelled;
    volatile int running; /* >0 while the unit function is active */
    volatile int alt_fn;  /* which function the next incarnation uses */
    volatile uint64_t end_step;
    volatile int cb_count, migrations_req;
    volatile int last_req_pool;
    pthread_t pth; /* ext */
    int xs_rank_at_start;
    /* C03 payload */
    volatile uint64_t payload[8];
    /* per-actor scratch for oracles */
    int depth[MAXO];     /* recursion depth per mutex held by this actor */
    int rheld[MAXO];     /* rwlock mode held: 0 none 1 rd 2 wr */
    int popped;          /* unit index last popped by this actor, -1 none */
    int skip_mutex, skip_depth;
    /* life-cycle bookkeeping */
    volatile int directed;     /* next start comes from a directed switch */
    volatile int expect_pool;  /* pool it was last pushed to by create/revive, -1 unknown */
    volatile int migr_pending; /* a migration request was accepted and not yet seen served */
    volatile int cur_pool;     /* pool it is associated with according to the model */
    volatile int exited;
    volatile uint64_t cancel_step, cancel_ret_step;
    volatile int slices;       /* number of times it (re)gained control, for C11 */
    volatile int suspended;    /* between self-suspend call and its return */
    volatile int resumes_issued, suspends_returned;
    volatile int pc_at_join, join_seen;
    volatile uint64_t cancel_ret_tick;
    volatile int suspends_called, resume_rounds_done, seen_terminated, reviving, h_valid, freeing, in_op;
} actor;

typedef struct {
    int kind;   /* 0 fifo 1 fifo_wait 2 randws 3 user 4 user-legacy */
    int access; /* 0 priv 1 spsc 2 mpsc 3 spmc 4 mpmc */
    int policy; /* user pool pop policy */
    int attached;
    int sub; /* index of the stacked scheduler owning it, -1 if none */
    ABT_pool h;
} vpool;

typedef struct {
    int sched; /* 0 default 1 basic 2 basic_wait 3 prio 4 randws 5 user */
    int npools;
    int pools[MAXP];
    ABT_xstream h;
    ABT_sched sh;
    int created, joined, freed;
    int late; /* created by an explicit op, not at start-up */
    int rank, sched_changed;
    int nalt, alt[MAXP]; /* pool list for a later main-scheduler replacement */
    volatile int host_pool; /* stacked scheduler: pool it was added to (+1), 0 = not yet */
} vxs;

struct globals {
    /* config */
    uint64_t seed;
    int strat, pct_d, native, want_hist, mode, drain, leakcheck, canary;
    unsigned mask, spin;
    uint64_t pct_len, step_limit, tick;
    actor main_a, ext[MAXEXT], unit[MAXU];
    int next, nunit;
    vpool pool[MAXP];
    int npool;
    vxs xs[MAXX];
    int nxs;
    vxs sub[MAXX]; /* stacked schedulers */
    int nsub;
    int nmutex, ncond, nbarrier, neventual, nfuture, nrwlock, nkey;
    int mutex_kind[MAXO], cond_kind[MAXO], barrier_n[MAXO], ev_nbytes[MAXO],
        fut_n[MAXO], fut_cb[MAXO], key_dtor[MAXKEY];
    ABT_mutex mutex[MAXO];
    ABT_mutex_memory mutex_mem[MAXO];
    ABT_cond cond[MAXO];
    ABT_cond_memory cond_mem[MAXO];
    ABT_barrier barrier[MAXO];
    ABT_eventual eventual[MAXO];
    ABT_future future[MAXO];
    ABT_rwlock rwlock[MAXO];
    ABT_key key[MAXKEY];
    volatile int flag[MAXFLAG];
    volatile long var[MAXFLAG];
};
extern struct globals G;

/* result reporting */
void out(const char *fmt, ...);
void viol(const char *fmt, ...) __attribute__((noreturn));
void generr(const char *fmt, ...) __attribute__((noreturn));
void stat_add(const char *key, long v);
void stat_max(const char *key, long v);
const char *actor_name(actor *a, char *buf);
actor *self_actor(void);
void hist(actor *a, const char *what, long v1, long v2, long v3);
uint64_t now_step(void);

#define CHECK_RC(rc, what)                                                     \
    do {                                                                       \
        if ((rc) != ABT_SUCCESS)                                               \
            viol("%s returned %d (expected ABT_SUCCESS)", what, (int)(rc));    \
    } while (0)

#endif
