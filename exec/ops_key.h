/* ops_key.h: work-unit-local storage (C16).  Included by ops.h. */

#define MAXKSEQ 64
struct kvrec {
    int owner, key, seq, isnull;
    volatile uint64_t t_start, t_end; /* interval of the set call */
    volatile int dtor_calls;
};
/* owner index: unit id, or MAXU for the primary ULT */
static struct kvrec g_kv[MAXU + 1][MAXKEY][MAXKSEQ];
static int g_kvn[MAXU + 1][MAXKEY];

static int owner_index(actor *a)
{
    return a->kind == A_MAIN ? MAXU : a->id;
}
static void key_dtor_common(void *value)
{
    struct kvrec *r = (struct kvrec *)value;
    if (r < &g_kv[0][0][0] || r >= &g_kv[MAXU + 1][0][0])
        viol("key destructor called with a value that was never stored (%p)", value);
    if (r->isnull)
        viol("key destructor called for a NULL value record");
    if (!G.key_dtor[r->key])
        viol("destructor called for key %d, which has no destructor", r->key);
    AINC(r->dtor_calls);
    stat_add("key_dtor_calls", 1);
}
static void op_kset(actor *a, int target, int k, int how, int null)
{
    /* how: 0 ABT_key_set, 1 ABT_self_set_specific, 2 ABT_thread_set_specific(target) */
    actor *o = how == 2 ? (target < 0 ? &G.main_a : &G.unit[target]) : a;
    int oi = owner_index(o);
    rlock();
    int s = g_kvn[oi][k];
    if (s >= MAXKSEQ) {
        runlock();
        generr("too many sets on one key");
    }
    struct kvrec *r = &g_kv[oi][k][s];
    r->owner = oi;
    r->key = k;
    r->seq = s;
    r->isnull = null;
    r->t_end = 0;
    r->t_start = now_tick();
    g_kvn[oi][k] = s + 1;
    runlock();
    void *val = null ? NULL : (void *)r;
    int rc;
    if (how == 0)
        rc = ABT_key_set(G.key[k], val);
    else if (how == 1)
        rc = ABT_self_set_specific(G.key[k], val);
    else
        rc = ABT_thread_set_specific(o->h, G.key[k], val);
    CHECK_RC(rc, "key set");
    ASTORE(r->t_end, now_tick());
    if (how == 2)
        stat_add("key_remote_sets", 1);
    stat_add("key_sets", 1);
}
static void op_kget(actor *a, int target, int k, int how)
{
    actor *o = how == 2 ? (target < 0 ? &G.main_a : &G.unit[target]) : a;
    int oi = owner_index(o);
    uint64_t g0 = now_tick();
    void *val = (void *)0x1;
    int rc;
    if (how == 0)
        rc = ABT_key_get(G.key[k], &val);
    else if (how == 1)
        rc = ABT_self_get_specific(G.key[k], &val);
    else
        rc = ABT_thread_get_specific(o->h, G.key[k], &val);
    CHECK_RC(rc, "key get");
    uint64_t g1 = now_tick();
    rlock();
    int n = g_kvn[oi][k];
    runlock();
    struct kvrec *got = (struct kvrec *)val;
    if (val != NULL) {
        if (got < &g_kv[0][0][0] || got >= &g_kv[MAXU + 1][0][0])
            viol("key get returned a pointer that was never stored");
        if (got->owner != oi || got->key != k)
            viol("key get for (unit %d, key %d) returned the value of (unit %d, key %d)", oi, k,
                 got->owner, got->key);
    }
    /* admissible: the value of a set s that started before the get ended and is
     * not superseded by a set that started after s ended and ended before the get
     * started; NULL also if no set had ended before the get started */
    int ok = 0, any_done = 0;
    for (int s = 0; s < n; s++) {
        struct kvrec *r = &g_kv[oi][k][s];
        uint64_t e = ALOAD(r->t_end);
        if (e && e < g0)
            any_done = 1;
        if (r->t_start > g1)
            continue;
        int superseded = 0;
        for (int q = 0; q < n; q++) {
            struct kvrec *r2 = &g_kv[oi][k][q];
            uint64_t e2 = ALOAD(r2->t_end);
            if (q != s && e && e2 && r2->t_start > e && e2 < g0)
                superseded = 1;
        }
        if (superseded)
            continue;
        if (r->isnull ? val == NULL : val == (void *)r)
            ok = 1;
    }
    if (val == NULL && !any_done)
        ok = 1;
    if (!ok)
        viol("key get for (unit %d, key %d) returned %s, which is not the last value set (of %d sets)",
             oi, k, val ? "a stale value" : "NULL", n);
    stat_add("key_gets", 1);
}
/* after everything was freed: exactly-once destructors */
static void key_final_checks(void)
{
    for (int oi = 0; oi <= MAXU; oi++)
        for (int k = 0; k < G.nkey; k++) {
            int n = g_kvn[oi][k];
            if (!n)
                continue;
            /* final candidates: sets not followed by a later, non-overlapping set */
            int cand = 0, called = 0, cand_nonnull = 0;
            for (int s = 0; s < n; s++) {
                struct kvrec *r = &g_kv[oi][k][s];
                int last = 1;
                for (int q = 0; q < n; q++)
                    if (q != s && g_kv[oi][k][q].t_start > r->t_end && r->t_end)
                        last = 0;
                if (r->dtor_calls > 1)
                    viol("destructor of key %d ran %d times for one value of unit %d", k,
                         r->dtor_calls, oi);
                if (!last && r->dtor_calls)
                    viol("destructor of key %d ran for an overwritten value of unit %d", k, oi);
                if (last) {
                    cand++;
                    if (!r->isnull)
                        cand_nonnull++;
                    called += r->dtor_calls;
                }
            }
            if (!G.key_dtor[k]) {
                if (called)
                    viol("key %d has no destructor but one was called", k);
                continue;
            }
            /* exactly one final value exists; it is one of the candidates */
            if (called > 1)
                viol("destructor of key %d ran for %d final values of unit %d", k, called, oi);
            if (called == 0 && cand_nonnull == cand)
                viol("unit %d was freed with a non-NULL value for key %d but its destructor never ran",
                     oi, k);
        }
}
