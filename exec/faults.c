/* faults.c: executor mode 3 (C18): single allocation / OS-resource failures.
 *
 * A case is: [ABT_init with the K-th allocation failing] + a context of
 * pre-existing objects (secondary streams, a blocked ULT, terminated-but-kept
 * work units, a joined stream, keys with values, an unattached pool, a
 * user-defined pool) + a list of calls "routine k a b c", each made with the
 * k-th allocation event of the calling thread failing (inst/wrap_alloc.c).
 * The caller is the primary ULT, a ULT on a secondary stream or an external
 * thread.
 *
 * Oracle per call:
 *   not fired (k > number of events)  -> the call must succeed;
 *   fired and the call succeeds       -> a fall-back path: treated as success;
 *   fired and the call fails          -> no crash, output handle untouched or
 *       the documented NULL handle, every API-visible attribute of every
 *       pre-existing object unchanged (snapshot), the very same call succeeds
 *       when retried without the fault;
 *   success (first or retried)        -> the new object works and is released.
 * At the end: a follow-up workload on every pool / stream, the blocked ULT is
 * released, everything is freed, ABT_finalize; the resource ledger (malloc
 * family, mmap, pthread objects) must be empty.  A failed ABT_init must leave
 * the ledger empty by itself. */
#include <abt.h>
#include <pthread.h>
#include <sched.h>
#include <stdio.h>
#include <stdlib.h>
#include <string.h>
#include <unistd.h>
#include "wrap_alloc.h"

extern void out(const char *fmt, ...);
extern void viol(const char *fmt, ...);
extern void generr(const char *fmt, ...);
extern void stat_add(const char *key, long v);
extern void stat_max(const char *key, long v);

#define MAXCALL 64
#define MAXXS 4
#define SENT(type) ((type)(uintptr_t)0x5a5a5a5a5a5a5a50ull)

static struct {
    int nxs, caller /* 0 main, 1 ult, 2 ext */, init_k;
    int ncall;
    struct {
        char name[40];
        long k;
        int a, b, c;
    } call[MAXCALL];
} F;

/* ---- context ---------------------------------------------------------- */
static ABT_xstream X[MAXXS];  /* 0 = primary */
static ABT_pool P[MAXXS];     /* main pool of each stream */
static ABT_pool UNATT;        /* basic pool not attached to any scheduler */
static ABT_pool UPOOL;        /* user-defined pool (not attached) */
static ABT_xstream JX;        /* a joined (terminated) stream */
static ABT_thread B;          /* blocked ULT */
static ABT_thread T;          /* terminated, joined, kept ULT */
static ABT_task TT;           /* terminated, joined, kept tasklet */
static ABT_eventual EV, DONE_EV;       /* what B waits for */
static ABT_key K[2];
static int kv[2][2];          /* values stored: [key][0 caller, 1 B] */
static volatile int b_waiting, b_done, ran_count, t_runs;
static int is_ext;

#define CK(call)                                                               \
    do {                                                                       \
        int rc_ = (call);                                                      \
        if (rc_ != ABT_SUCCESS)                                                \
            viol("context: %s failed with %d although no fault was injected", #call, rc_); \
    } while (0)

static void relax(void)
{
    if (is_ext)
        usleep(50);
    else
        ABT_thread_yield();
}
static void ran_fn(void *arg)
{
    __atomic_add_fetch((volatile int *)arg, 1, __ATOMIC_SEQ_CST);
}
static void yield_fn(void *arg)
{
    ABT_thread_yield();
    __atomic_add_fetch((volatile int *)arg, 1, __ATOMIC_SEQ_CST);
}
static void b_fn(void *arg)
{
    (void)arg;
    __atomic_store_n(&b_waiting, 1, __ATOMIC_SEQ_CST);
    ABT_eventual_wait(EV, NULL);
    __atomic_store_n(&b_done, 1, __ATOMIC_SEQ_CST);
}
static void key_dtor(void *v)
{
    (void)v;
}
static void wait_count(volatile int *p, int target, const char *what)
{
    /* no iteration cap: on a loaded machine a stream can be descheduled for seconds, and
     * a count of yields is a clock in disguise; a unit that really never runs makes this
     * loop spin for ever, which the executor reports as a hang */
    (void)what;
    while (__atomic_load_n(p, __ATOMIC_SEQ_CST) < target)
        relax();
}

/* ---- user-defined pool (for the unit <-> work-unit map) ----------------- */
#define UQ 32
static ABT_thread uq[UQ];
static int uqn;
static int u_creates, u_frees;
static ABT_unit up_create_unit(ABT_pool p, ABT_thread t)
{
    (void)p;
    u_creates++;
    return (ABT_unit)((uintptr_t)t ^ 0x10); /* not a built-in unit */
}
static void up_free_unit(ABT_pool p, ABT_unit u)
{
    (void)p;
    (void)u;
    u_frees++;
}
static ABT_bool up_is_empty(ABT_pool p)
{
    (void)p;
    return uqn == 0 ? ABT_TRUE : ABT_FALSE;
}
static ABT_thread up_pop(ABT_pool p, ABT_pool_context c)
{
    (void)p;
    (void)c;
    if (!uqn)
        return ABT_THREAD_NULL;
    return uq[--uqn];
}
static void up_push(ABT_pool p, ABT_unit u, ABT_pool_context c)
{
    (void)p;
    (void)c;
    if (uqn < UQ)
        uq[uqn++] = (ABT_thread)((uintptr_t)u ^ 0x10);
}

/* ---- snapshot of everything that existed before the call ------------------ */
typedef struct {
    int num_xs;
    int xstate[MAXXS + 1];
    ABT_sched sched[MAXXS + 1];
    int npools[MAXXS + 1];
    ABT_pool pool0[MAXXS + 1];
    size_t psize[MAXXS + 3];
    int ustate[3];
    ABT_pool upool[3];
    void *uarg[2];
    void *keyval[2][2];
    int self_rank;
    int counters[4];
} snap_t;

static int g_p0_stable = 1;
static ABT_thread MAIN;
static void snap(snap_t *s)
{
    memset(s, 0, sizeof *s);
    CK(ABT_xstream_get_num(&s->num_xs));
    for (int i = 0; i <= F.nxs; i++) {
        ABT_xstream x = i < F.nxs ? X[i] : JX;
        ABT_xstream_state st;
        CK(ABT_xstream_get_state(x, &st));
        s->xstate[i] = (int)st;
        CK(ABT_xstream_get_main_sched(x, &s->sched[i]));
        CK(ABT_sched_get_num_pools(s->sched[i], &s->npools[i]));
        CK(ABT_sched_get_pools(s->sched[i], 1, 0, &s->pool0[i]));
        if (i < F.nxs && (i > 0 || g_p0_stable))
            CK(ABT_pool_get_total_size(P[i], &s->psize[i]));
    }
    CK(ABT_pool_get_total_size(UNATT, &s->psize[MAXXS]));
    ABT_bool ue;
    CK(ABT_pool_is_empty(UPOOL, &ue));
    s->psize[MAXXS + 1] = (size_t)ue;
    ABT_thread_state ts;
    CK(ABT_thread_get_state(B, &ts));
    s->ustate[0] = (int)ts;
    CK(ABT_thread_get_state(T, &ts));
    s->ustate[1] = (int)ts;
    ABT_task_state ks;
    CK(ABT_task_get_state(TT, &ks));
    s->ustate[2] = (int)ks;
    CK(ABT_thread_get_last_pool(B, &s->upool[0]));
    CK(ABT_thread_get_last_pool(T, &s->upool[1]));
    CK(ABT_thread_get_arg(B, &s->uarg[0]));
    CK(ABT_thread_get_arg(T, &s->uarg[1]));
    for (int k = 0; k < 2; k++) {
        if (!is_ext)
            CK(ABT_self_get_specific(K[k], &s->keyval[k][0]));
        CK(ABT_thread_get_specific(B, K[k], &s->keyval[k][1]));
    }
    if (!is_ext)
        CK(ABT_self_get_xstream_rank(&s->self_rank));
    s->counters[0] = b_done;
    s->counters[1] = t_runs;
    s->counters[2] = u_creates - u_frees;
    s->counters[3] = uqn;
}
static void snap_compare(const snap_t *a, const snap_t *b, const char *what)
{
#define CMP(field, fmt)                                                        \
    if (memcmp(&a->field, &b->field, sizeof a->field))                         \
        viol("%s failed (injected fault) but changed a pre-existing object: " fmt, what)
    CMP(num_xs, "the number of execution streams");
    CMP(xstate, "the state of an execution stream");
    CMP(sched, "the main scheduler of an execution stream");
    CMP(npools, "the number of pools of a main scheduler");
    CMP(pool0, "the first pool of a main scheduler");
    CMP(psize, "the total size of a pool");
    CMP(ustate, "the state of a work unit");
    CMP(upool, "the pool of a work unit");
    CMP(uarg, "the argument of a work unit");
    CMP(keyval, "a work-unit-specific value");
    CMP(self_rank, "the rank of the caller's stream");
    CMP(counters, "the harness counters (a pre-existing unit ran / user-pool units)");
#undef CMP
}

/* ---- the routines --------------------------------------------------------- */
typedef struct routine {
    const char *name;
    int (*call)(int a, int b, int c);  /* the call under test (armed) */
    void (*on_fail)(int a, int b, int c);
    void (*on_ok)(int a, int b, int c); /* verify the result, release it */
    int need; /* 1: caller must be a ULT; 2: needs a secondary stream; 4: main only */
} routine;

static char ustack[4][65536 + 128] __attribute__((aligned(64)));
static ABT_thread h_thread;
static ABT_task h_task;
static ABT_thread_attr g_attr;
static int g_named, g_poolsel;

static ABT_pool sel_pool(int a)
{
    /* 0..nxs-1: stream pools; nxs: the unattached pool; nxs+1: user-defined pool */
    a %= F.nxs + 2;
    g_poolsel = a;
    return a < F.nxs ? P[a] : a == F.nxs ? UNATT : UPOOL;
}
static void prep_attr(int b)
{
    g_attr = ABT_THREAD_ATTR_NULL;
    b %= 4;
    if (b == 0)
        return;
    CK(ABT_thread_attr_create(&g_attr));
    if (b == 1)
        CK(ABT_thread_attr_set_stacksize(g_attr, 40000 + 8));
    else if (b == 2)
        CK(ABT_thread_attr_set_stack(g_attr, ustack[0] + 8, 65536));
    else
        CK(ABT_thread_attr_set_migratable(g_attr, ABT_FALSE));
}
static void drop_attr(void)
{
    if (g_attr != ABT_THREAD_ATTR_NULL)
        CK(ABT_thread_attr_free(&g_attr));
}
/* a unit created into a pool nobody schedules is moved to a stream's pool */
static void kick_unattached(const char *what)
{
    if (g_poolsel < F.nxs)
        return;
    ABT_pool src = g_poolsel == F.nxs ? UNATT : UPOOL;
    ABT_thread t = ABT_THREAD_NULL;
    CK(ABT_pool_pop_thread(src, &t));
    if (t == ABT_THREAD_NULL)
        viol("%s succeeded but the unit is not in the pool it was created in", what);
    CK(ABT_pool_push_thread(P[F.nxs - 1], t));
}
static int base_count;

static int c_thread_create(int a, int b, int c)
{
    ABT_pool pool = sel_pool(a);
    g_named = (c & 1) || b % 4 == 2; /* a user-supplied stack is reused: wait for the end */
    h_thread = SENT(ABT_thread);
    base_count = ran_count;
    return ABT_thread_create(pool, (c & 2) ? yield_fn : ran_fn, (void *)&ran_count, g_attr,
                             g_named ? &h_thread : NULL);
}
static void f_thread(int a, int b, int c)
{
    (void)a, (void)b, (void)c;
    if (g_named && h_thread != SENT(ABT_thread) && h_thread != ABT_THREAD_NULL)
        viol("a failed thread creation returned a handle (%p) that is neither untouched nor "
             "ABT_THREAD_NULL", (void *)h_thread);
}
static void o_thread(int a, int b, int c)
{
    (void)a, (void)b, (void)c;
    kick_unattached("thread creation");
    if (g_named) {
        if (h_thread == SENT(ABT_thread) || h_thread == ABT_THREAD_NULL)
            viol("successful thread creation did not return a handle");
        CK(ABT_thread_free(&h_thread));
    }
    wait_count(&ran_count, base_count + 1, "thread_create");
    if (ran_count != base_count + 1)
        viol("the created ULT ran %d times", ran_count - base_count);
}
static int c_thread_create_to(int a, int b, int c)
{
    (void)c;
    ABT_pool pool = P[a % F.nxs]; /* the caller is pushed to its own pool */
    g_poolsel = 0;
    g_named = 1;
    h_thread = SENT(ABT_thread);
    base_count = ran_count;
    return ABT_thread_create_to(pool, ran_fn, (void *)&ran_count, g_attr, &h_thread);
}
static int c_thread_create_on_xstream(int a, int b, int c)
{
    g_poolsel = 0;
    g_named = (c & 1) || b % 4 == 2;
    h_thread = SENT(ABT_thread);
    base_count = ran_count;
    return ABT_thread_create_on_xstream(X[a % F.nxs], ran_fn, (void *)&ran_count, g_attr,
                                        g_named ? &h_thread : NULL);
}
static int c_task_create(int a, int b, int c)
{
    (void)b;
    ABT_pool pool = sel_pool(a);
    g_named = c & 1;
    h_task = SENT(ABT_task);
    base_count = ran_count;
    return ABT_task_create(pool, ran_fn, (void *)&ran_count, g_named ? &h_task : NULL);
}
static int c_task_create_on_xstream(int a, int b, int c)
{
    (void)b;
    g_poolsel = 0;
    g_named = c & 1;
    h_task = SENT(ABT_task);
    base_count = ran_count;
    return ABT_task_create_on_xstream(X[a % F.nxs], ran_fn, (void *)&ran_count,
                                      g_named ? &h_task : NULL);
}
static void f_task(int a, int b, int c)
{
    (void)a, (void)b, (void)c;
    if (g_named && h_task != SENT(ABT_task) && h_task != ABT_TASK_NULL)
        viol("a failed tasklet creation returned a handle that is neither untouched nor ABT_TASK_NULL");
}
static void o_task(int a, int b, int c)
{
    (void)a, (void)b, (void)c;
    kick_unattached("tasklet creation");
    if (g_named) {
        if (h_task == SENT(ABT_task) || h_task == ABT_TASK_NULL)
            viol("successful tasklet creation did not return a handle");
        CK(ABT_task_free(&h_task));
    }
    wait_count(&ran_count, base_count + 1, "task_create");
}
/* revive of the kept, terminated units */
static ABT_thread t_before;
static int c_thread_revive(int a, int b, int c)
{
    (void)b;
    t_before = T;
    base_count = t_runs;
    if ((c & 1) && !is_ext) {
        g_poolsel = 0;
        return ABT_thread_revive_to(P[a % F.nxs], ran_fn, (void *)&t_runs, &T);
    }
    return ABT_thread_revive(sel_pool(a), (c & 2) ? yield_fn : ran_fn, (void *)&t_runs, &T);
}
static void f_revive(int a, int b, int c)
{
    (void)a, (void)b, (void)c;
    if (T != t_before)
        viol("a failed ABT_thread_revive changed the handle");
}
static void o_thread_revive(int a, int b, int c)
{
    (void)a, (void)b, (void)c;
    if (T != t_before)
        viol("ABT_thread_revive changed the handle");
    kick_unattached("ABT_thread_revive");
    CK(ABT_thread_join(T));
    if (t_runs != base_count + 1)
        viol("the revived ULT ran %d times", t_runs - base_count);
}
static ABT_task tt_before;
static int c_task_revive(int a, int b, int c)
{
    (void)b, (void)c;
    tt_before = TT;
    base_count = t_runs;
    return ABT_task_revive(sel_pool(a), ran_fn, (void *)&t_runs, &TT);
}
static void f_task_revive(int a, int b, int c)
{
    (void)a, (void)b, (void)c;
    if (TT != tt_before)
        viol("a failed ABT_task_revive changed the handle");
}
static void o_task_revive(int a, int b, int c)
{
    (void)a, (void)b, (void)c;
    kick_unattached("ABT_task_revive");
    CK(ABT_task_join(TT));
    if (t_runs != base_count + 1)
        viol("the revived tasklet ran %d times", t_runs - base_count);
}

/* streams */
static ABT_xstream h_xs;
static ABT_sched h_sched;
static int us_init(ABT_sched s, ABT_sched_config c)
{
    (void)s, (void)c;
    return ABT_SUCCESS;
}
static void us_run(ABT_sched sched)
{
    ABT_pool pool;
    ABT_sched_get_pools(sched, 1, 0, &pool);
    for (;;) {
        ABT_thread t = ABT_THREAD_NULL;
        ABT_pool_pop_thread(pool, &t);
        if (t != ABT_THREAD_NULL) {
            ABT_self_schedule(t, ABT_POOL_NULL);
        } else {
            ABT_bool stop = ABT_FALSE;
            ABT_xstream_check_events(sched);
            ABT_sched_has_to_stop(sched, &stop);
            if (stop == ABT_TRUE)
                break;
        }
    }
}
static int us_free(ABT_sched s)
{
    (void)s;
    return ABT_SUCCESS;
}
static ABT_sched_def g_usdef = { .type = ABT_SCHED_TYPE_ULT, .init = us_init, .run = us_run,
                                 .free = us_free, .get_migr_pool = NULL };
static const ABT_sched_predef predefs[] = { ABT_SCHED_DEFAULT, ABT_SCHED_BASIC, ABT_SCHED_PRIO,
                                            ABT_SCHED_RANDWS, ABT_SCHED_BASIC_WAIT };
static ABT_pool g_nullpools[2] = { ABT_POOL_NULL, ABT_POOL_NULL };
static int c_xstream_create(int a, int b, int c)
{
    (void)c;
    h_xs = SENT(ABT_xstream);
    switch (a % 4) {
        case 0:
            return ABT_xstream_create(ABT_SCHED_NULL, &h_xs);
        case 1:
            /* (a NULL pool array is undefined for this routine) */
            return ABT_xstream_create_basic(predefs[b % 5], 1 + b % 2, g_nullpools,
                                            ABT_SCHED_CONFIG_NULL, &h_xs);
        case 2:
            return ABT_xstream_create_with_rank(ABT_SCHED_NULL, 9 + b % 3, &h_xs);
        default:
            return ABT_xstream_create(h_sched, &h_xs);
    }
}
static void p_xstream_create(int a, int b)
{
    h_sched = ABT_SCHED_NULL;
    if (a % 4 == 3) {
        if (b % 2)
            CK(ABT_sched_create_basic(predefs[b % 5], 1, NULL, ABT_SCHED_CONFIG_NULL, &h_sched));
        else {
            ABT_pool pool;
            CK(ABT_pool_create_basic(ABT_POOL_FIFO, ABT_POOL_ACCESS_MPMC, ABT_TRUE, &pool));
            CK(ABT_sched_create(&g_usdef, 1, &pool, ABT_SCHED_CONFIG_NULL, &h_sched));
        }
    }
}
static void f_xstream(int a, int b, int c)
{
    (void)b, (void)c;
    if (h_xs != SENT(ABT_xstream) && h_xs != ABT_XSTREAM_NULL)
        viol("a failed stream creation returned a handle that is neither untouched nor "
             "ABT_XSTREAM_NULL");
    (void)a;
}
static void o_xstream(int a, int b, int c)
{
    (void)c;
    if (h_xs == SENT(ABT_xstream) || h_xs == ABT_XSTREAM_NULL)
        viol("successful stream creation did not return a handle");
    if (a % 4 == 2) {
        int rank = -1;
        CK(ABT_xstream_get_rank(h_xs, &rank));
        if (rank != 9 + b % 3)
            viol("ABT_xstream_create_with_rank: rank %d instead of %d", rank, 9 + b % 3);
    }
    ABT_thread t;
    int before = ran_count;
    CK(ABT_thread_create_on_xstream(h_xs, ran_fn, (void *)&ran_count, ABT_THREAD_ATTR_NULL, &t));
    CK(ABT_thread_free(&t));
    if (ran_count != before + 1)
        viol("a unit on the new stream did not run");
    CK(ABT_xstream_join(h_xs));
    CK(ABT_xstream_free(&h_xs));
    /* a scheduler from ABT_sched_create is not automatic: still ours to free (its
     * automatic pool goes with it); the basic one went with the stream */
    if (a % 4 == 3 && b % 2 == 0)
        CK(ABT_sched_free(&h_sched));
    h_sched = ABT_SCHED_NULL;
}
static void x_xstream_fail_cleanup(int a)
{
    /* the scheduler we made for case 3 is still ours after a failure */
    if (a % 4 == 3 && h_sched != ABT_SCHED_NULL)
        CK(ABT_sched_free(&h_sched));
}
static int c_xstream_revive(int a, int b, int c)
{
    (void)a, (void)b, (void)c;
    return ABT_xstream_revive(JX);
}
static void o_xstream_revive(int a, int b, int c)
{
    (void)a, (void)b, (void)c;
    ABT_thread t;
    int before = ran_count;
    CK(ABT_thread_create_on_xstream(JX, ran_fn, (void *)&ran_count, ABT_THREAD_ATTR_NULL, &t));
    CK(ABT_thread_free(&t));
    if (ran_count != before + 1)
        viol("a unit on the revived stream did not run");
    CK(ABT_xstream_join(JX));
}
static void o_set_main_sched_joined(int a, int b, int c)
{
    CK(ABT_xstream_revive(JX));
    o_xstream_revive(a, b, c);
}
static void f_none(int a, int b, int c)
{
    (void)a, (void)b, (void)c;
}
static int c_set_main_sched_joined(int a, int b, int c)
{
    (void)c;
    if (a % 2)
        return ABT_xstream_set_main_sched_basic(JX, predefs[b % 5], 1 + b % 2, g_nullpools);
    return ABT_xstream_set_main_sched(JX, ABT_SCHED_NULL);
}
static int c_set_main_sched_self(int a, int b, int c)
{
    (void)c;
    if (a % 2)
        return ABT_xstream_set_main_sched_basic(X[0], predefs[b % 5], 1 + b % 2, g_nullpools);
    return ABT_xstream_set_main_sched(X[0], ABT_SCHED_NULL);
}
static void o_set_main_sched_self(int a, int b, int c)
{
    (void)a, (void)b, (void)c;
    CK(ABT_xstream_get_main_pools(X[0], 1, &P[0]));
    ABT_thread t;
    int before = ran_count;
    CK(ABT_thread_create(P[0], yield_fn, (void *)&ran_count, ABT_THREAD_ATTR_NULL, &t));
    CK(ABT_thread_free(&t));
    if (ran_count != before + 1)
        viol("a unit in the new main pool did not run");
}

/* schedulers and pools */
static ABT_pool h_pool;
static int c_sched_create_basic(int a, int b, int c)
{
    (void)c;
    h_sched = SENT(ABT_sched);
    ABT_pool pools[2] = { ABT_POOL_NULL, ABT_POOL_NULL };
    if (b % 3 == 0)
        return ABT_sched_create_basic(predefs[a % 5], 2, pools, ABT_SCHED_CONFIG_NULL, &h_sched);
    return ABT_sched_create_basic(predefs[a % 5], 1 + b % 3, NULL, ABT_SCHED_CONFIG_NULL, &h_sched);
}
static int c_sched_create(int a, int b, int c)
{
    (void)a, (void)b, (void)c;
    h_sched = SENT(ABT_sched);
    return ABT_sched_create(&g_usdef, 1, &h_pool, ABT_SCHED_CONFIG_NULL, &h_sched);
}
static void f_sched(int a, int b, int c)
{
    (void)a, (void)b, (void)c;
    if (h_sched != SENT(ABT_sched) && h_sched != ABT_SCHED_NULL)
        viol("a failed scheduler creation returned a handle that is neither untouched nor "
             "ABT_SCHED_NULL");
}
static void o_sched(int a, int b, int c)
{
    (void)a, (void)b, (void)c;
    int n = 0;
    CK(ABT_sched_get_num_pools(h_sched, &n));
    if (n < 1)
        viol("new scheduler has %d pools", n);
    CK(ABT_sched_free(&h_sched));
}
static const ABT_pool_kind pkinds[] = { ABT_POOL_FIFO, ABT_POOL_FIFO_WAIT, ABT_POOL_RANDWS };
static const ABT_pool_access paccs[] = { ABT_POOL_ACCESS_MPMC, ABT_POOL_ACCESS_PRIV,
                                         ABT_POOL_ACCESS_SPSC, ABT_POOL_ACCESS_MPSC,
                                         ABT_POOL_ACCESS_SPMC };
static ABT_pool_user_def h_def;
static ABT_pool_config h_pcfg;
static int c_pool_create_basic(int a, int b, int c)
{
    h_pool = SENT(ABT_pool);
    return ABT_pool_create_basic(pkinds[a % 3], paccs[b % 5], (c & 1) ? ABT_TRUE : ABT_FALSE,
                                 &h_pool);
}
static int c_pool_create(int a, int b, int c)
{
    (void)a, (void)b, (void)c;
    h_pool = SENT(ABT_pool);
    return ABT_pool_create(h_def, h_pcfg, &h_pool);
}
static void f_pool(int a, int b, int c)
{
    (void)a, (void)b, (void)c;
    if (h_pool != SENT(ABT_pool) && h_pool != ABT_POOL_NULL)
        viol("a failed pool creation returned a handle that is neither untouched nor "
             "ABT_POOL_NULL");
}
static void o_pool(int a, int b, int c)
{
    (void)a, (void)b, (void)c;
    size_t n = 99;
    ABT_bool e = ABT_FALSE;
    CK(ABT_pool_is_empty(h_pool, &e));
    if (e != ABT_TRUE)
        viol("new pool is not empty (size %zu)", n);
    CK(ABT_pool_free(&h_pool));
}
static int c_pool_user_def_create(int a, int b, int c)
{
    (void)a, (void)b, (void)c;
    h_def = SENT(ABT_pool_user_def);
    return ABT_pool_user_def_create(up_create_unit, up_free_unit, up_is_empty, up_pop, up_push,
                                    &h_def);
}
static void f_def(int a, int b, int c)
{
    (void)a, (void)b, (void)c;
    if (h_def != SENT(ABT_pool_user_def) && h_def != ABT_POOL_USER_DEF_NULL)
        viol("a failed ABT_pool_user_def_create returned a dangling handle");
}
static void o_def(int a, int b, int c)
{
    (void)a, (void)b, (void)c;
    CK(ABT_pool_user_def_free(&h_def));
}
static int c_pool_config_create(int a, int b, int c)
{
    (void)a, (void)b, (void)c;
    h_pcfg = SENT(ABT_pool_config);
    return ABT_pool_config_create(&h_pcfg);
}
static void f_pcfg(int a, int b, int c)
{
    (void)a, (void)b, (void)c;
    if (h_pcfg != SENT(ABT_pool_config) && h_pcfg != ABT_POOL_CONFIG_NULL)
        viol("a failed ABT_pool_config_create returned a dangling handle");
}
static void o_pcfg(int a, int b, int c)
{
    (void)a, (void)b, (void)c;
    const ABT_bool automatic = ABT_FALSE;
    CK(ABT_pool_config_set(h_pcfg, ABT_pool_config_automatic.key, ABT_pool_config_automatic.type,
                           &automatic));
    CK(ABT_pool_config_free(&h_pcfg));
}
static int c_pool_config_set(int a, int b, int c)
{
    (void)b, (void)c;
    const int v = a;
    return ABT_pool_config_set(h_pcfg, 3 + a % 5, ABT_POOL_CONFIG_INT, &v);
}
static void o_pool_config_set(int a, int b, int c)
{
    (void)b, (void)c;
    int v = -1;
    ABT_pool_config_type ty;
    CK(ABT_pool_config_get(h_pcfg, 3 + a % 5, &ty, &v));
    if (v != a)
        viol("ABT_pool_config_get returned %d instead of %d", v, a);
}
static ABT_sched_config h_scfg;
static int c_sched_config_create(int a, int b, int c)
{
    (void)b, (void)c;
    h_scfg = SENT(ABT_sched_config);
    ABT_sched_config_var v1 = { .idx = 0, .type = ABT_SCHED_CONFIG_INT };
    ABT_sched_config_var v2 = { .idx = 3, .type = ABT_SCHED_CONFIG_DOUBLE };
    if (a % 2)
        return ABT_sched_config_create(&h_scfg, v1, 7, v2, 1.5, ABT_sched_config_automatic, 1,
                                       ABT_sched_config_var_end);
    return ABT_sched_config_create(&h_scfg, ABT_sched_basic_freq, 10, ABT_sched_config_var_end);
}
static void f_scfg(int a, int b, int c)
{
    (void)a, (void)b, (void)c;
    if (h_scfg != SENT(ABT_sched_config) && h_scfg != ABT_SCHED_CONFIG_NULL)
        viol("a failed ABT_sched_config_create returned a dangling handle");
}
static void o_scfg(int a, int b, int c)
{
    (void)a, (void)b, (void)c;
    CK(ABT_sched_config_free(&h_scfg));
}

/* keys */
static ABT_key h_key;
static int fresh_val;
static int c_key_create(int a, int b, int c)
{
    (void)b, (void)c;
    h_key = SENT(ABT_key);
    return ABT_key_create((a & 1) ? key_dtor : NULL, &h_key);
}
static void f_key(int a, int b, int c)
{
    (void)a, (void)b, (void)c;
    if (h_key != SENT(ABT_key) && h_key != ABT_KEY_NULL)
        viol("a failed ABT_key_create returned a dangling handle");
}
static void o_key(int a, int b, int c)
{
    (void)a, (void)b, (void)c;
    void *v = (void *)1;
    CK(ABT_thread_set_specific(B, h_key, &fresh_val));
    CK(ABT_thread_get_specific(B, h_key, &v));
    if (v != &fresh_val)
        viol("value of a new key reads back wrong");
    CK(ABT_thread_set_specific(B, h_key, NULL));
    CK(ABT_key_free(&h_key));
}
/* setting keys that are new for the work unit: a batch of fresh keys (made outside
 * the window) is set one after the other inside the window, so that the batch crosses
 * the points where the unit's key table has to grow; the call "fails" at the first set
 * that fails and the retry continues from there */
#define MAXFRESH 48
static ABT_key fk[MAXFRESH];
static int fkval[MAXFRESH];
static int nfk, fkpos;
static void fresh_keys(int b)
{
    nfk = 4 + (b % 8) * 6;
    fkpos = 0;
    for (int i = 0; i < nfk; i++)
        CK(ABT_key_create((i & 1) ? key_dtor : NULL, &fk[i]));
}
static int key_set_one(int other, int a, int i)
{
    if (other)
        return ABT_thread_set_specific(B, fk[i], &fkval[i]);
    return (a & 1) ? ABT_key_set(fk[i], &fkval[i]) : ABT_self_set_specific(fk[i], &fkval[i]);
}
static int key_get_one(int other, int i, void **v)
{
    return other ? ABT_thread_get_specific(B, fk[i], v) : ABT_self_get_specific(fk[i], v);
}
static int key_set_batch(int other, int a)
{
    for (; fkpos < nfk; fkpos++) {
        int rc = key_set_one(other, a, fkpos);
        if (rc != ABT_SUCCESS)
            return rc;
    }
    return ABT_SUCCESS;
}
static void key_batch_failed(int other)
{
    for (int i = 0; i < nfk; i++) {
        void *v = (void *)1;
        CK(key_get_one(other, i, &v));
        if (i < fkpos && v != &fkval[i])
            viol("a failed key set destroyed the value of a key set just before");
        if (i >= fkpos && v != NULL)
            viol("a failed key set left a value behind");
    }
}
static void key_batch_ok(int other)
{
    for (int i = 0; i < nfk; i++) {
        void *v = (void *)1;
        CK(key_get_one(other, i, &v));
        if (v != &fkval[i])
            viol("a key does not read back the value just set (key %d of %d)", i, nfk);
    }
}
static void drop_fresh_keys(int other)
{
    for (int i = 0; i < nfk; i++) {
        if (other)
            CK(ABT_thread_set_specific(B, fk[i], NULL));
        else if (!is_ext)
            CK(ABT_self_set_specific(fk[i], NULL));
        CK(ABT_key_free(&fk[i]));
    }
    nfk = 0;
}
static int c_key_set_self(int a, int b, int c)
{
    (void)b, (void)c;
    return key_set_batch(0, a);
}
static void f_key_set_self(int a, int b, int c)
{
    (void)a, (void)b, (void)c;
    key_batch_failed(0);
}
static void o_key_set_self(int a, int b, int c)
{
    (void)a, (void)b, (void)c;
    key_batch_ok(0);
}
static int c_key_set_other(int a, int b, int c)
{
    (void)b, (void)c;
    return key_set_batch(1, a);
}
static void f_key_set_other(int a, int b, int c)
{
    (void)a, (void)b, (void)c;
    key_batch_failed(1);
}
static void o_key_set_other(int a, int b, int c)
{
    (void)a, (void)b, (void)c;
    key_batch_ok(1);
}

/* migration data of the blocked ULT */
static void mig_cb(ABT_thread t, void *arg)
{
    (void)t, (void)arg;
}
static int c_set_callback(int a, int b, int c)
{
    (void)b, (void)c;
    return ABT_thread_set_callback(B, (a & 1) ? mig_cb : NULL, &fresh_val);
}
static void o_set_callback(int a, int b, int c)
{
    (void)b, (void)c;
    (void)a;
    CK(ABT_thread_set_callback(B, NULL, NULL));
}

/* synchronisation objects and the small ones */
static ABT_mutex h_mutex;
static ABT_mutex_attr h_mattr;
static ABT_cond h_cond;
static ABT_rwlock h_rw;
static ABT_eventual h_ev;
static ABT_future h_fut;
static ABT_barrier h_bar;
static ABT_xstream_barrier h_xbar;
static ABT_timer h_timer, h_timer0;
static ABT_thread_attr h_tattr;
#define SIMPLE(NAME, TYPE, VAR, NULLH, CREATE, USE, FREE)                      \
    static int c_##NAME(int a, int b, int c)                                   \
    {                                                                          \
        (void)a, (void)b, (void)c;                                             \
        VAR = SENT(TYPE);                                                      \
        return CREATE;                                                         \
    }                                                                          \
    static void f_##NAME(int a, int b, int c)                                  \
    {                                                                          \
        (void)a, (void)b, (void)c;                                             \
        if (VAR != SENT(TYPE) && VAR != NULLH)                                 \
            viol("a failed " #NAME " returned a handle that is neither untouched nor " #NULLH); \
    }                                                                          \
    static void o_##NAME(int a, int b, int c)                                  \
    {                                                                          \
        (void)a, (void)b, (void)c;                                             \
        if (VAR == SENT(TYPE) || VAR == NULLH)                                 \
            viol("successful " #NAME " did not return a handle");              \
        USE;                                                                   \
        CK(FREE);                                                              \
    }
SIMPLE(mutex_create, ABT_mutex, h_mutex, ABT_MUTEX_NULL, ABT_mutex_create(&h_mutex),
       { CK(ABT_mutex_lock(h_mutex)); CK(ABT_mutex_unlock(h_mutex)); }, ABT_mutex_free(&h_mutex))
SIMPLE(mutex_create_with_attr, ABT_mutex, h_mutex, ABT_MUTEX_NULL,
       ABT_mutex_create_with_attr(h_mattr, &h_mutex),
       { CK(ABT_mutex_lock(h_mutex)); CK(ABT_mutex_lock(h_mutex)); CK(ABT_mutex_unlock(h_mutex));
         CK(ABT_mutex_unlock(h_mutex)); }, ABT_mutex_free(&h_mutex))
SIMPLE(mutex_attr_create, ABT_mutex_attr, h_mattr, ABT_MUTEX_ATTR_NULL,
       ABT_mutex_attr_create(&h_mattr), { CK(ABT_mutex_attr_set_recursive(h_mattr, ABT_TRUE)); },
       ABT_mutex_attr_free(&h_mattr))
SIMPLE(cond_create, ABT_cond, h_cond, ABT_COND_NULL, ABT_cond_create(&h_cond),
       { CK(ABT_cond_signal(h_cond)); }, ABT_cond_free(&h_cond))
SIMPLE(rwlock_create, ABT_rwlock, h_rw, ABT_RWLOCK_NULL, ABT_rwlock_create(&h_rw),
       { CK(ABT_rwlock_rdlock(h_rw)); CK(ABT_rwlock_unlock(h_rw)); }, ABT_rwlock_free(&h_rw))
SIMPLE(eventual_create, ABT_eventual, h_ev, ABT_EVENTUAL_NULL,
       ABT_eventual_create((a % 3) * 24, &h_ev), {
           char buf[48] = "abcdefghijklmnopqrstuvwxyzabcdefghijklmnopqrstu";
           void *v = NULL;
           CK(ABT_eventual_set(h_ev, (a % 3) ? buf : NULL, (a % 3) * 24));
           CK(ABT_eventual_wait(h_ev, (a % 3) ? &v : NULL));
           if ((a % 3) && memcmp(v, buf, (size_t)(a % 3) * 24))
               viol("eventual value corrupted");
       }, ABT_eventual_free(&h_ev))
SIMPLE(future_create, ABT_future, h_fut, ABT_FUTURE_NULL,
       ABT_future_create(1 + a % 4, NULL, &h_fut), {
           for (int i = 0; i < 1 + a % 4; i++)
               CK(ABT_future_set(h_fut, &fresh_val));
           CK(ABT_future_wait(h_fut));
       }, ABT_future_free(&h_fut))
SIMPLE(barrier_create, ABT_barrier, h_bar, ABT_BARRIER_NULL, ABT_barrier_create(1, &h_bar),
       { if (!is_ext) CK(ABT_barrier_wait(h_bar)); }, ABT_barrier_free(&h_bar))
SIMPLE(xstream_barrier_create, ABT_xstream_barrier, h_xbar, ABT_XSTREAM_BARRIER_NULL,
       ABT_xstream_barrier_create(1, &h_xbar), { CK(ABT_xstream_barrier_wait(h_xbar)); },
       ABT_xstream_barrier_free(&h_xbar))
SIMPLE(timer_create, ABT_timer, h_timer, ABT_TIMER_NULL, ABT_timer_create(&h_timer),
       { CK(ABT_timer_start(h_timer)); CK(ABT_timer_stop(h_timer)); }, ABT_timer_free(&h_timer))
SIMPLE(timer_dup, ABT_timer, h_timer, ABT_TIMER_NULL, ABT_timer_dup(h_timer0, &h_timer),
       { CK(ABT_timer_start(h_timer)); CK(ABT_timer_stop(h_timer)); }, ABT_timer_free(&h_timer))
SIMPLE(thread_attr_create, ABT_thread_attr, h_tattr, ABT_THREAD_ATTR_NULL,
       ABT_thread_attr_create(&h_tattr), { CK(ABT_thread_attr_set_stacksize(h_tattr, 65536)); },
       ABT_thread_attr_free(&h_tattr))

static const routine ROUTINES[] = {
    { "thread_create", c_thread_create, f_thread, o_thread, 0 },
    { "thread_create_to", c_thread_create_to, f_thread, o_thread, 1 },
    { "thread_create_on_xstream", c_thread_create_on_xstream, f_thread, o_thread, 0 },
    { "task_create", c_task_create, f_task, o_task, 0 },
    { "task_create_on_xstream", c_task_create_on_xstream, f_task, o_task, 0 },
    { "thread_revive", c_thread_revive, f_revive, o_thread_revive, 0 },
    { "task_revive", c_task_revive, f_task_revive, o_task_revive, 0 },
    { "xstream_create", c_xstream_create, f_xstream, o_xstream, 0 },
    { "xstream_revive", c_xstream_revive, f_none, o_xstream_revive, 0 },
    { "set_main_sched_joined", c_set_main_sched_joined, f_none, o_set_main_sched_joined, 1 },
    { "set_main_sched_self", c_set_main_sched_self, f_none, o_set_main_sched_self, 4 },
    { "sched_create_basic", c_sched_create_basic, f_sched, o_sched, 0 },
    { "sched_create", c_sched_create, f_sched, o_sched, 0 },
    { "pool_create_basic", c_pool_create_basic, f_pool, o_pool, 0 },
    { "pool_create", c_pool_create, f_pool, o_pool, 0 },
    { "pool_user_def_create", c_pool_user_def_create, f_def, o_def, 0 },
    { "pool_config_create", c_pool_config_create, f_pcfg, o_pcfg, 0 },
    { "pool_config_set", c_pool_config_set, f_none, o_pool_config_set, 0 },
    { "sched_config_create", c_sched_config_create, f_scfg, o_scfg, 0 },
    { "key_create", c_key_create, f_key, o_key, 0 },
    { "key_set_self", c_key_set_self, f_key_set_self, o_key_set_self, 1 },
    { "key_set_other", c_key_set_other, f_key_set_other, o_key_set_other, 0 },
    { "set_callback", c_set_callback, f_none, o_set_callback, 0 },
    { "mutex_create", c_mutex_create, f_mutex_create, o_mutex_create, 0 },
    { "mutex_create_with_attr", c_mutex_create_with_attr, f_mutex_create_with_attr,
      o_mutex_create_with_attr, 0 },
    { "mutex_attr_create", c_mutex_attr_create, f_mutex_attr_create, o_mutex_attr_create, 0 },
    { "cond_create", c_cond_create, f_cond_create, o_cond_create, 0 },
    { "rwlock_create", c_rwlock_create, f_rwlock_create, o_rwlock_create, 0 },
    { "eventual_create", c_eventual_create, f_eventual_create, o_eventual_create, 0 },
    { "future_create", c_future_create, f_future_create, o_future_create, 0 },
    { "barrier_create", c_barrier_create, f_barrier_create, o_barrier_create, 0 },
    { "xstream_barrier_create", c_xstream_barrier_create, f_xstream_barrier_create,
      o_xstream_barrier_create, 0 },
    { "timer_create", c_timer_create, f_timer_create, o_timer_create, 0 },
    { "timer_dup", c_timer_dup, f_timer_dup, o_timer_dup, 0 },
    { "thread_attr_create", c_thread_attr_create, f_thread_attr_create, o_thread_attr_create, 0 },
};
#define NROUTINES ((int)(sizeof ROUTINES / sizeof ROUTINES[0]))

/* things a routine needs that are made outside the armed window */
static void prepare(const routine *r, int a, int b, int c)
{
    (void)c;
    if (!strncmp(r->name, "thread_create", 13))
        prep_attr(b);
    if (!strcmp(r->name, "xstream_create"))
        p_xstream_create(a, b);
    if (!strcmp(r->name, "sched_create"))
        CK(ABT_pool_create_basic(ABT_POOL_FIFO, ABT_POOL_ACCESS_MPMC, ABT_TRUE, &h_pool));
    if (!strcmp(r->name, "pool_create")) {
        CK(ABT_pool_user_def_create(up_create_unit, up_free_unit, up_is_empty, up_pop, up_push,
                                    &h_def));
        h_pcfg = ABT_POOL_CONFIG_NULL;
        if (a % 2) {
            const ABT_bool automatic = ABT_FALSE;
            CK(ABT_pool_config_create(&h_pcfg));
            CK(ABT_pool_config_set(h_pcfg, ABT_pool_config_automatic.key,
                                   ABT_pool_config_automatic.type, &automatic));
        }
    }
    if (!strcmp(r->name, "pool_config_set"))
        CK(ABT_pool_config_create(&h_pcfg));
    if (!strcmp(r->name, "key_set_self") || !strcmp(r->name, "key_set_other"))
        fresh_keys(b);
    if (!strcmp(r->name, "mutex_create_with_attr")) {
        CK(ABT_mutex_attr_create(&h_mattr));
        CK(ABT_mutex_attr_set_recursive(h_mattr, ABT_TRUE));
    }
    if (!strcmp(r->name, "timer_dup")) {
        CK(ABT_timer_create(&h_timer0));
        CK(ABT_timer_start(h_timer0));
    }
}
/* ... and released afterwards; failed = the call never succeeded */
static void unprepare(const routine *r, int a, int failed)
{
    if (!strncmp(r->name, "thread_create", 13))
        drop_attr();
    if (!strcmp(r->name, "xstream_create") && failed)
        x_xstream_fail_cleanup(a);
    if (!strcmp(r->name, "sched_create") && failed)
        CK(ABT_pool_free(&h_pool)); /* on success the automatic pool went with the scheduler */
    if (!strcmp(r->name, "pool_create")) {
        CK(ABT_pool_user_def_free(&h_def));
        if (h_pcfg != ABT_POOL_CONFIG_NULL)
            CK(ABT_pool_config_free(&h_pcfg));
    }
    if (!strcmp(r->name, "pool_config_set"))
        CK(ABT_pool_config_free(&h_pcfg));
    if (!strcmp(r->name, "key_set_self") || !strcmp(r->name, "key_set_other"))
        drop_fresh_keys(!strcmp(r->name, "key_set_other"));
    if (!strcmp(r->name, "mutex_create_with_attr"))
        CK(ABT_mutex_attr_free(&h_mattr));
    if (!strcmp(r->name, "timer_dup"))
        CK(ABT_timer_free(&h_timer0));
}

/* ---- parsing --------------------------------------------------------------- */
static long kvl(const char *line, const char *key, long dflt)
{
    char pat[64];
    snprintf(pat, sizeof pat, " %s=", key);
    const char *p = strstr(line, pat);
    return p ? strtol(p + strlen(pat), NULL, 10) : dflt;
}
void ft_line(const char *line)
{
    if (!strncmp(line, "ft ctx", 6)) {
        F.nxs = (int)kvl(line, "nxs", 1);
        F.caller = (int)kvl(line, "caller", 0);
        F.init_k = (int)kvl(line, "initk", 0);
        if (F.nxs < 1 || F.nxs > MAXXS - 1 || F.caller < 0 || F.caller > 2)
            generr("bad ft ctx line");
    } else if (!strncmp(line, "ft call ", 8)) {
        if (F.ncall >= MAXCALL)
            generr("too many ft calls");
        if (sscanf(line + 8, "%39s", F.call[F.ncall].name) != 1)
            generr("bad ft call line");
        F.call[F.ncall].k = kvl(line, "k", 0);
        F.call[F.ncall].a = (int)kvl(line, "a", 0);
        F.call[F.ncall].b = (int)kvl(line, "b", 0);
        F.call[F.ncall].c = (int)kvl(line, "c", 0);
        F.ncall++;
    } else {
        generr("unknown ft line");
    }
}

/* ---- the run ---------------------------------------------------------------- */
static void one_call(int idx)
{
    const routine *r = NULL;
    for (int i = 0; i < NROUTINES; i++)
        if (!strcmp(ROUTINES[i].name, F.call[idx].name))
            r = &ROUTINES[i];
    if (!r)
        generr("unknown routine %s", F.call[idx].name);
    int a = F.call[idx].a, b = F.call[idx].b, c = F.call[idx].c;
    long k = F.call[idx].k;
    if ((r->need & 1) && F.caller == 2)
        return; /* needs a ULT caller */
    if ((r->need & 4) && (F.caller != 0 || F.nxs < 2))
        return;
    char what[96];
    snprintf(what, sizeof what, "%s(a=%d b=%d c=%d) with allocation #%ld failing", r->name, a, b,
             c, k);
    prepare(r, a, b, c);
    snap_t before, after;
    snap(&before);
    fi_arm(k);
    int rc = r->call(a, b, c);
    long n = fi_disarm();
    int kind = -1;
    size_t size = 0;
    int fired = fi_fired(&kind, &size);
    char key[40];
    snprintf(key, sizeof key, "n:%s", r->name);
    stat_max(key, n);
    stat_add("ft_calls", 1);
    int failed = 0;
    if (!fired) {
        if (rc != ABT_SUCCESS)
            viol("%s: returned %d although no allocation failed (%ld allocation events)", what,
                 rc, n);
    } else {
        stat_add("ft_fired", 1);
        snprintf(key, sizeof key, "fired:%s", fi_kind_name(kind));
        stat_add(key, 1);
        if (rc == ABT_SUCCESS) {
            stat_add("ft_fallback_success", 1);
        } else {
            stat_add("ft_failed_calls", 1);
            snprintf(key, sizeof key, "f:%s", r->name);
            stat_add(key, 1);
            r->on_fail(a, b, c);
            snap(&after);
            snap_compare(&before, &after, what);
            /* the same call again, no fault */
            fi_arm(0);
            rc = r->call(a, b, c);
            fi_disarm();
            if (rc != ABT_SUCCESS) {
                failed = 1;
                viol("%s: the retry without a fault fails too (rc=%d)", what, rc);
            }
        }
    }
    if (!failed)
        r->on_ok(a, b, c);
    unprepare(r, a, failed);
}

static void *runner(void *arg)
{
    (void)arg;
    if (F.caller != 0) {
        /* the primary ULT is about to block (join / eventual): the size of its pool
         * is only compared once it has */
        g_p0_stable = 0;
        for (long i = 0; i < 2000000 && !g_p0_stable; i++) {
            ABT_thread_state st;
            CK(ABT_thread_get_state(MAIN, &st));
            if (st == ABT_THREAD_STATE_BLOCKED)
                g_p0_stable = 1;
            else
                relax();
        }
    }
    /* values of the two context keys for the caller and for B */
    for (int k = 0; k < 2; k++) {
        if (!is_ext)
            CK(ABT_self_set_specific(K[k], &kv[k][0]));
        CK(ABT_thread_set_specific(B, K[k], &kv[k][1]));
    }
    for (int i = 0; i < F.ncall; i++)
        one_call(i);
    /* follow-up workload: every stream and pool still works */
    int before = ran_count;
    ABT_thread ts[MAXXS * 2];
    int nt = 0;
    for (int i = 0; i < F.nxs; i++) {
        CK(ABT_thread_create(P[i], yield_fn, (void *)&ran_count, ABT_THREAD_ATTR_NULL, &ts[nt++]));
        CK(ABT_task_create(P[i], ran_fn, (void *)&ran_count, NULL));
    }
    for (int i = 0; i < nt; i++)
        CK(ABT_thread_free(&ts[i]));
    wait_count(&ran_count, before + 2 * F.nxs, "follow-up workload");
    for (int k = 0; k < 2; k++) {
        void *v = NULL;
        if (!is_ext) {
            CK(ABT_self_get_specific(K[k], &v));
            if (v != &kv[k][0])
                viol("the caller's value of a key changed");
        }
        CK(ABT_thread_get_specific(B, K[k], &v));
        if (v != &kv[k][1])
            viol("the blocked ULT's value of a key changed");
    }
    return NULL;
}
static void *runner_ext(void *arg)
{
    runner(arg);
    CK(ABT_eventual_set(DONE_EV, NULL, 0));
    return NULL;
}
static void runner_ult(void *arg)
{
    runner(arg);
}

void ft_run(void)
{
    fi_ledger_begin();
    if (F.init_k) {
        fi_arm(F.init_k);
        int rc = ABT_init(0, NULL);
        long n = fi_disarm();
        stat_max("n:init", n);
        if (fi_fired(NULL, NULL) && rc != ABT_SUCCESS) {
            stat_add("ft_failed_calls", 1);
            stat_add("f:init", 1);
            stat_add("ft_fired", 1);
            if (ABT_initialized() == ABT_SUCCESS)
                viol("ABT_init failed (allocation #%d) but ABT_initialized() reports success",
                     F.init_k);
            if (fi_ledger_live() != 0) {
                char d[256];
                fi_ledger_describe(d, sizeof d);
                viol("ABT_init failed (allocation #%d of %ld) and left %ld resources behind: %s",
                     F.init_k, n, fi_ledger_live(), d);
            }
            rc = ABT_init(0, NULL);
            if (rc != ABT_SUCCESS)
                viol("ABT_init fails (rc=%d) when retried after an allocation failure", rc);
        } else if (rc != ABT_SUCCESS) {
            viol("ABT_init returned %d although no allocation failed", rc);
        } else if (fi_fired(NULL, NULL)) {
            stat_add("ft_fired", 1);
            stat_add("ft_fallback_success", 1);
        }
    } else {
        fi_arm(0);
        CK(ABT_init(0, NULL));
        stat_max("n:init", fi_disarm());
    }
    /* context */
    CK(ABT_xstream_self(&X[0]));
    CK(ABT_thread_self(&MAIN));
    CK(ABT_xstream_get_main_pools(X[0], 1, &P[0]));
    for (int i = 1; i < F.nxs; i++) {
        CK(ABT_xstream_create(ABT_SCHED_NULL, &X[i]));
        CK(ABT_xstream_get_main_pools(X[i], 1, &P[i]));
    }
    CK(ABT_xstream_create(ABT_SCHED_NULL, &JX));
    CK(ABT_xstream_join(JX));
    CK(ABT_pool_create_basic(ABT_POOL_FIFO, ABT_POOL_ACCESS_MPMC, ABT_FALSE, &UNATT));
    ABT_pool_user_def def;
    ABT_pool_config cfg;
    const ABT_bool automatic = ABT_FALSE;
    CK(ABT_pool_user_def_create(up_create_unit, up_free_unit, up_is_empty, up_pop, up_push, &def));
    CK(ABT_pool_config_create(&cfg));
    CK(ABT_pool_config_set(cfg, ABT_pool_config_automatic.key, ABT_pool_config_automatic.type,
                           &automatic));
    CK(ABT_pool_create(def, cfg, &UPOOL));
    CK(ABT_pool_config_free(&cfg));
    CK(ABT_pool_user_def_free(&def));
    CK(ABT_eventual_create(0, &EV));
    CK(ABT_key_create(key_dtor, &K[0]));
    CK(ABT_key_create(NULL, &K[1]));
    int home = F.nxs - 1; /* B, T, TT live in the last stream's pool */
    CK(ABT_thread_create(P[home], b_fn, NULL, ABT_THREAD_ATTR_NULL, &B));
    CK(ABT_thread_create(P[home], ran_fn, (void *)&t_runs, ABT_THREAD_ATTR_NULL, &T));
    CK(ABT_task_create(P[home], ran_fn, (void *)&t_runs, &TT));
    CK(ABT_thread_join(T));
    CK(ABT_task_join(TT));
    for (long i = 0;; i++) {
        ABT_thread_state st;
        CK(ABT_thread_get_state(B, &st));
        if (b_waiting && st == ABT_THREAD_STATE_BLOCKED)
            break;
        ABT_thread_yield();
        (void)i;
    }
    /* the calls */
    if (F.caller == 0) {
        runner(NULL);
    } else if (F.caller == 1) {
        ABT_thread r;
        CK(ABT_thread_create(P[F.nxs > 1 ? 1 : 0], runner_ult, NULL, ABT_THREAD_ATTR_NULL, &r));
        CK(ABT_thread_free(&r));
    } else {
        pthread_t th;
        is_ext = 1;
        CK(ABT_eventual_create(0, &DONE_EV));
        if (pthread_create(&th, NULL, runner_ext, NULL) != 0)
            generr("pthread_create failed");
        /* the primary ULT blocks (its stream keeps scheduling) until the external
         * thread is through */
        CK(ABT_eventual_wait(DONE_EV, NULL));
        pthread_join(th, NULL);
        is_ext = 0;
    }
    /* tear-down */
    if (F.caller == 2)
        CK(ABT_eventual_free(&DONE_EV));
    CK(ABT_eventual_set(EV, NULL, 0));
    CK(ABT_thread_free(&B));
    if (!b_done)
        viol("the blocked ULT did not finish after its eventual was set");
    CK(ABT_thread_free(&T));
    CK(ABT_task_free(&TT));
    CK(ABT_eventual_free(&EV));
    for (int i = 1; i < F.nxs; i++) {
        CK(ABT_xstream_join(X[i]));
        CK(ABT_xstream_free(&X[i]));
    }
    CK(ABT_xstream_free(&JX));
    CK(ABT_pool_free(&UNATT));
    CK(ABT_pool_free(&UPOOL));
    CK(ABT_key_free(&K[0]));
    CK(ABT_key_free(&K[1]));
    if (u_creates != u_frees)
        viol("user-defined pool: %d units created, %d freed", u_creates, u_frees);
    CK(ABT_finalize());
    fi_ledger_end();
    stat_add("ledger_total", fi_ledger_total());
    if (fi_ledger_overflow())
        generr("ledger overflow");
    if (fi_ledger_live() != 0) {
        char d[256];
        fi_ledger_describe(d, sizeof d);
        viol("%ld resources allocated during the case were not released by ABT_finalize: %s",
             fi_ledger_live(), d);
    }
}
