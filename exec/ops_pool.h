/* ops_pool.h: direct pool operations by external threads (C07, C19 pool part).
 * Every operation is logged with its call and return ticks for the offline
 * linearizability check (gen/c07.py). */

static int unit_of_thread(ABT_thread t)
{
    for (int i = 0; i < G.nunit; i++)
        if (G.unit[i].created && G.unit[i].named && G.unit[i].h == t)
            return i;
    return -1;
}
static void plog(actor *a, const char *kind, int pool, int flag, uint64_t t0, uint64_t t1,
                 const int *ids, int n)
{
    char nb[16], buf[200];
    int w = 0;
    buf[0] = 0;
    for (int i = 0; i < n && w < 180; i++)
        w += sprintf(buf + w, "%d,", ids[i]);
    out("N q %s %s %d %d %lu %lu %s", actor_name(a, nb), kind, pool, flag, (unsigned long)t0,
        (unsigned long)t1, n ? buf : "-");
}
static ABT_pool_context ctx_of(int c)
{
    /* 0 default, 1 head push (thread-create context), 2 owner secondary (tail pop), 3 owner primary */
    switch (c) {
        case 1:
            return ABT_POOL_CONTEXT_OP_THREAD_CREATE;
        case 2:
            return ABT_POOL_CONTEXT_OWNER_SECONDARY;
        case 3:
            return ABT_POOL_CONTEXT_OWNER_PRIMARY;
        default:
            return ABT_POOL_CONTEXT_OP_POOL_OTHER;
    }
}
/* variant: 0 push_thread, 1 push_thread_ex(ctx), 2 ABT_pool_push(unit) */
static void op_ppush(actor *a, int p, int ui, int variant, int c)
{
    if (ui < 0) {
        /* push back the unit this actor popped last, if any */
        ui = a->popped;
        a->popped = -1;
        if (ui < 0)
            return;
    }
    actor *u = &G.unit[ui];
    uint64_t t0 = now_tick();
    int rc;
    if (variant == 1) {
        rc = ABT_pool_push_thread_ex(G.pool[p].h, u->h, ctx_of(c));
    } else if (variant == 2) {
        ABT_unit unit;
        rc = ABT_thread_get_unit(u->h, &unit);
        CHECK_RC(rc, "ABT_thread_get_unit");
        t0 = now_tick();
        rc = ABT_pool_push(G.pool[p].h, unit);
    } else {
        rc = ABT_pool_push_thread(G.pool[p].h, u->h);
    }
    CHECK_RC(rc, "ABT_pool_push*");
    uint64_t t1 = now_tick();
    u->expect_pool = -1;
    u->cur_pool = p;
    plog(a, "push", p, variant == 1 && c == 1, t0, t1, &ui, 1);
    stat_add("pool_pushes", 1);
}
static void op_ppushm(actor *a, op_t *o)
{
    int p = (int)o->a[0];
    ABT_thread ts[3];
    int ids[3], n = 0;
    for (int k = 1; k < 4; k++)
        if (o->a[k] >= 0) {
            ids[n] = (int)o->a[k];
            ts[n++] = G.unit[o->a[k]].h;
            G.unit[o->a[k]].expect_pool = -1;
            G.unit[o->a[k]].cur_pool = p;
        }
    uint64_t t0 = now_tick();
    /* the op has no free argument slot: the first unit id selects the entry point
     * (odd: ABT_pool_push_threads_ex with a tail-push context) */
    int rc;
    if (n && (ids[0] & 1)) {
        rc = ABT_pool_push_threads_ex(G.pool[p].h, ts, (size_t)n, ctx_of((ids[0] & 2) ? 3 : 0));
        stat_add("pool_push_many_ex", 1);
    } else {
        rc = ABT_pool_push_threads(G.pool[p].h, ts, (size_t)n);
    }
    CHECK_RC(rc, "ABT_pool_push_threads");
    uint64_t t1 = now_tick();
    plog(a, "pushm", p, 0, t0, t1, ids, n);
    stat_add("pool_pushes", n);
}
/* variant: 0 pop_thread, 1 pop_thread_ex(ctx), 2 ABT_pool_pop, 3 pop_wait_thread(us),
 *          4 ABT_pool_pop_timedwait(us from now), 5 ABT_pool_pop_wait,
 *          6 pop_wait_thread_ex(30 us, ctx = arg) */
static void op_ppop(actor *a, int p, int variant, long arg)
{
    ABT_thread t = ABT_THREAD_NULL;
    ABT_unit unit = ABT_UNIT_NULL;
    int rc, tail = 0;
    uint64_t v0 = ds_now();
    uint64_t t0 = now_tick();
    switch (variant) {
        case 1:
            tail = (arg == 2);
            rc = ABT_pool_pop_thread_ex(G.pool[p].h, &t, ctx_of((int)arg));
            break;
        case 2:
            rc = ABT_pool_pop(G.pool[p].h, &unit);
            break;
        case 3:
            rc = ABT_pool_pop_wait_thread(G.pool[p].h, &t, (double)arg * 1e-6);
            break;
        case 4: {
            double abst = ABT_get_wtime() + (double)arg * 1e-6;
            rc = ABT_pool_pop_timedwait(G.pool[p].h, &unit, abst);
            break;
        }
        case 5:
            rc = ABT_pool_pop_wait(G.pool[p].h, &unit, (double)arg * 1e-6);
            break;
        case 6:
            tail = (arg == 2);
            rc = ABT_pool_pop_wait_thread_ex(G.pool[p].h, &t, 30e-6, ctx_of((int)arg));
            arg = 30;
            stat_add("pool_pop_wait_ex", 1);
            break;
        default:
            rc = ABT_pool_pop_thread(G.pool[p].h, &t);
    }
    CHECK_RC(rc, "ABT_pool_pop*");
    uint64_t t1 = now_tick();
    uint64_t v1 = ds_now();
    if (variant == 2 || variant == 4 || variant == 5) {
        if (unit != ABT_UNIT_NULL) {
            rc = ABT_unit_get_thread(unit, &t);
            CHECK_RC(rc, "ABT_unit_get_thread");
        }
    }
    int id = -1;
    if (t != ABT_THREAD_NULL) {
        id = unit_of_thread(t);
        if (id < 0)
            viol("pool %d returned a handle that was never pushed", p);
        stat_add("pool_pops", 1);
    } else {
        stat_add("pool_pops_empty", 1);
        if (variant >= 3 && ds_active()) {
            /* an empty-handed blocking pop must come back in bounded time */
            uint64_t lim = (uint64_t)arg * 1000ull + 30000000ull;
            if (v1 - v0 > lim)
                viol("blocking pop on pool %d with a %ld us timeout took %lu virtual ns", p, arg,
                     (unsigned long)(v1 - v0));
        }
    }
    plog(a, variant >= 3 ? "popw" : "pop", p, tail, t0, t1, &id, id >= 0 ? 1 : 0);
    a->popped = id;
}
static void op_ppopm(actor *a, int p, int max, int c)
{
    ABT_thread ts[8];
    size_t num = 0;
    if (max > 8)
        max = 8;
    uint64_t t0 = now_tick();
    int rc = c ? ABT_pool_pop_threads_ex(G.pool[p].h, ts, (size_t)max, &num, ctx_of(c))
               : ABT_pool_pop_threads(G.pool[p].h, ts, (size_t)max, &num);
    CHECK_RC(rc, "ABT_pool_pop_threads");
    uint64_t t1 = now_tick();
    int ids[8];
    for (size_t i = 0; i < num; i++) {
        ids[i] = unit_of_thread(ts[i]);
        if (ids[i] < 0)
            viol("pool %d returned a handle that was never pushed", p);
    }
    char kind[16];
    sprintf(kind, "popm%d", max);
    plog(a, kind, p, c == 2, t0, t1, ids, (int)num);
    stat_add("pool_pops", (long)num);
}
static void op_premove(actor *a, int p, int ui)
{
    ABT_unit unit;
    int rc = ABT_thread_get_unit(G.unit[ui].h, &unit);
    CHECK_RC(rc, "ABT_thread_get_unit");
    uint64_t t0 = now_tick();
    rc = ABT_pool_remove(G.pool[p].h, unit);
    uint64_t t1 = now_tick();
    CHECK_RC(rc, "ABT_pool_remove");
    plog(a, "remove", p, 0, t0, t1, &ui, 1);
    stat_add("pool_removes", 1);
}
/* quiescent size query */
static void op_psize(actor *a, int p)
{
    size_t sz = 0;
    ABT_bool empty = ABT_FALSE;
    int rc = ABT_pool_get_size(G.pool[p].h, &sz);
    CHECK_RC(rc, "ABT_pool_get_size");
    rc = ABT_pool_is_empty(G.pool[p].h, &empty);
    CHECK_RC(rc, "ABT_pool_is_empty");
    uint64_t t = now_tick();
    int v[2] = { (int)sz, (int)empty };
    plog(a, "size", p, 0, t, t, v, 2);
    if ((sz == 0) != (empty == ABT_TRUE))
        viol("pool %d: get_size=%zu but is_empty=%d at a quiescent point", p, sz, (int)empty);
}

/* bulk move: pop up to n units from pool pa and push them all into pool pb with one
 * ABT_pool_push_threads call (the units become associated with pb) */
static void op_pmove(actor *a, int pa, int pb, int n)
{
    /* unnamed units cannot be identified by their handle: from now on no unit's
     * start pool is predictable */
    ASTORE(g_bulk_moves, 1);
    ABT_thread ts[8];
    size_t num = 0;
    if (n > 8)
        n = 8;
    int rc = ABT_pool_pop_threads(G.pool[pa].h, ts, (size_t)n, &num);
    if (rc == ABT_ERR_POOL && G.pool[pa].kind >= 3) {
        /* the user pool does not implement pop_many: documented error */
        num = 0;
        while ((int)num < n) {
            ABT_thread t = ABT_THREAD_NULL;
            rc = ABT_pool_pop_thread(G.pool[pa].h, &t);
            CHECK_RC(rc, "ABT_pool_pop_thread");
            if (t == ABT_THREAD_NULL)
                break;
            ts[num++] = t;
        }
        rc = ABT_SUCCESS;
    }
    CHECK_RC(rc, "ABT_pool_pop_threads");
    for (size_t i = 0; i < num; i++) {
        int id = unit_of_thread(ts[i]);
        if (id >= 0) {
            G.unit[id].expect_pool = -1;
            G.unit[id].cur_pool = pb;
            G.unit[id].migr_pending = 1;
        }
    }
    if (num) {
        rc = ABT_pool_push_threads(G.pool[pb].h, ts, num);
        if (rc == ABT_ERR_POOL && G.pool[pb].kind >= 3) {
            /* no push_many in the user pool: nothing was pushed; push one by one */
            for (size_t i = 0; i < num; i++) {
                rc = ABT_pool_push_thread(G.pool[pb].h, ts[i]);
                CHECK_RC(rc, "ABT_pool_push_thread");
            }
        }
        CHECK_RC(rc, "ABT_pool_push_threads");
        stat_add("bulk_moved_units", (long)num);
    }
    (void)a;
}
