/* abtx: executor of generated Argobots programs (DESIGN.md section 3.2).
 * Fork server: reads cases from stdin (terminated by a line "END"), runs each
 * in a forked child under dsched and prints the child's records followed by
 * "DONE verdict=..." */
#include "abtx.h"
#include <sys/mman.h>
#include <sys/wait.h>
#include <sys/personality.h>
#include <signal.h>
#include <time.h>
#include <fcntl.h>
#include <poll.h>
#include <sys/resource.h>

struct globals G;

/* ------------------------------------------------------------------ */
/* result buffer shared with the fork-server parent                    */
#define RES_TEXT (4u << 20)
#define MAXSTAT 96
struct result {
    volatile int lock;
    size_t len;
    uint64_t steps, switches, spin_sleeps, clock_jumps;
    int nstat;
    struct {
        char key[40];
        long v;
    } st[MAXSTAT];
    char text[RES_TEXT];
};
static struct result *R;

static void rlock(void)
{
    while (__atomic_exchange_n(&R->lock, 1, __ATOMIC_ACQUIRE))
        ;
}
static void runlock(void)
{
    __atomic_store_n(&R->lock, 0, __ATOMIC_RELEASE);
}
static void vout(const char *fmt, va_list ap)
{
    rlock();
    if (R->len < RES_TEXT - 600) {
        int n = vsnprintf(R->text + R->len, 512, fmt, ap);
        if (n > 511)
            n = 511;
        R->len += n;
        R->text[R->len++] = '\n';
    }
    runlock();
}
void out(const char *fmt, ...)
{
    va_list ap;
    va_start(ap, fmt);
    vout(fmt, ap);
    va_end(ap);
}
static void save_counters(void)
{
    R->steps = ds_steps;
    R->switches = ds_switches;
    R->spin_sleeps = ds_spin_sleeps;
    R->clock_jumps = ds_clock_jumps;
}
void viol(const char *fmt, ...)
{
    char buf[480];
    va_list ap;
    va_start(ap, fmt);
    vsnprintf(buf, sizeof(buf), fmt, ap);
    va_end(ap);
    out("V %s", buf);
    save_counters();
    _exit(10);
}
void generr(const char *fmt, ...)
{
    char buf[480];
    va_list ap;
    va_start(ap, fmt);
    vsnprintf(buf, sizeof(buf), fmt, ap);
    va_end(ap);
    out("G %s", buf);
    save_counters();
    _exit(11);
}
static void on_hang(const char *kind)
{
    char buf[400];
    ds_describe(buf, sizeof(buf));
    out("H %s %s", kind, buf);
    save_counters();
    _exit(3);
}
static int stat_slot(const char *key)
{
    for (int i = 0; i < R->nstat; i++)
        if (!strcmp(R->st[i].key, key))
            return i;
    if (R->nstat == MAXSTAT)
        return -1;
    strncpy(R->st[R->nstat].key, key, 39);
    R->st[R->nstat].v = 0;
    return R->nstat++;
}
void stat_add(const char *key, long v)
{
    rlock();
    int i = stat_slot(key);
    if (i >= 0)
        R->st[i].v += v;
    runlock();
}
void stat_max(const char *key, long v)
{
    rlock();
    int i = stat_slot(key);
    if (i >= 0 && R->st[i].v < v)
        R->st[i].v = v;
    runlock();
}
uint64_t now_step(void)
{
    return ds_steps;
}
const char *actor_name(actor *a, char *buf)
{
    if (a->kind == A_MAIN)
        strcpy(buf, "main");
    else
        sprintf(buf, "%s%d", a->kind == A_EXT ? "ext" : "u", a->id);
    return buf;
}
void hist(actor *a, const char *what, long v1, long v2, long v3)
{
    if (!G.want_hist)
        return;
    char nb[16];
    out("h %lu %s %d %s %ld %ld %ld", (unsigned long)ds_steps, actor_name(a, nb),
        a->pc_heap, what, v1, v2, v3);
}

static char g_envA[256], g_envB[256];
extern void env_probe(const char *tag, const char *setting);
extern void mp_line(const char *line);
extern void mp_run(void);
extern void ft_line(const char *line);
extern void ft_run(void);
#include "ops.h"

/* ------------------------------------------------------------------ */
/* parsing                                                             */
static long kv(const char *line, const char *key, long def)
{
    char pat[48];
    snprintf(pat, sizeof(pat), " %s=", key);
    const char *p = strstr(line, pat);
    if (!p)
        return def;
    return strtol(p + strlen(pat), NULL, 0);
}
static const char *kvs(const char *line, const char *key, char *buf, int len)
{
    char pat[48];
    snprintf(pat, sizeof(pat), " %s=", key);
    const char *p = strstr(line, pat);
    buf[0] = 0;
    if (!p)
        return buf;
    p += strlen(pat);
    int n = 0;
    while (*p && *p != ' ' && *p != '\n' && n < len - 1)
        buf[n++] = *p++;
    buf[n] = 0;
    return buf;
}
static int lookup(const char *s, const char *const *names)
{
    for (int i = 0; names[i]; i++)
        if (!strcmp(s, names[i]))
            return i;
    return -1;
}
static const char *const pool_kinds[] = { "fifo", "fifo_wait", "randws", "user",
                                          "userlegacy", NULL };
static const char *const accesses[] = { "priv", "spsc", "mpsc", "spmc", "mpmc", NULL };
static const char *const scheds[] = { "default", "basic", "basic_wait", "prio",
                                      "randws", "user", NULL };
static const char *const strats[] = { "random", "pct", NULL };

static void parse_ops(actor *a, char *s)
{
    a->nops = 0;
    char *save1;
    for (char *tok = strtok_r(s, ";", &save1); tok; tok = strtok_r(NULL, ";", &save1)) {
        char *save2;
        char *name = strtok_r(tok, " \t\n", &save2);
        if (!name)
            continue;
        int code = lookup(name, opnames);
        if (code < 0)
            generr("unknown op '%s'", name);
        if (a->nops == MAXOPS)
            generr("too many ops");
        op_t *o = &a->ops[a->nops++];
        memset(o, 0, sizeof(*o));
        o->code = code;
        for (int k = 0; k < 4; k++)
            o->a[k] = -1;
        for (int k = 0; k < 4; k++) {
            char *arg = strtok_r(NULL, " \t\n", &save2);
            if (!arg)
                break;
            o->a[k] = strtol(arg, NULL, 0);
        }
    }
}

static char g_envbuf[64][128];
static int g_nenv;

static void parse_case(char *text)
{
    memset(&G, 0, sizeof(G));
    G.mask = 7;
    G.drain = 1;
    G.leakcheck = 1;
    G.main_a.kind = A_MAIN;
    G.main_a.skip_mutex = -1;
    G.main_a.popped = -1;
    for (int i = 0; i < MAXEXT; i++)
        G.ext[i].popped = -1;
    for (int i = 0; i < MAXU; i++) {
        G.unit[i].skip_mutex = -1;
        G.unit[i].expect_pool = G.unit[i].cur_pool = -1;
    }
    for (int i = 0; i < MAXP; i++) {
        G.pool[i].sub = -1;
        G.pool[i].h = ABT_POOL_NULL;
    }
    for (int i = 0; i < MAXEXT; i++)
        G.ext[i].skip_mutex = -1;
    g_nenv = 0;
    g_envA[0] = g_envB[0] = 0;
    char *save;
    for (char *line = strtok_r(text, "\n", &save); line; line = strtok_r(NULL, "\n", &save)) {
        char tmp[64];
        while (*line == ' ')
            line++;
        if (!*line || *line == '#')
            continue;
        char *colon = strchr(line, ':');
        char *opstr = NULL;
        if (colon && (!strncmp(line, "unit", 4) || !strncmp(line, "ext", 3) ||
                      !strncmp(line, "main", 4))) {
            *colon = 0;
            opstr = colon + 1;
        }
        if (!strncmp(line, "cfg", 3)) {
            G.seed = (uint64_t)kv(line, "seed", 1);
            G.strat = lookup(kvs(line, "strat", tmp, sizeof tmp), strats);
            if (G.strat < 0)
                G.strat = 0;
            G.mask = (unsigned)kv(line, "mask", 7);
            G.pct_d = (int)kv(line, "d", 2);
            G.pct_len = (uint64_t)kv(line, "pctlen", 20000);
            G.step_limit = (uint64_t)kv(line, "steplimit", 600000);
            G.native = (int)kv(line, "native", 0);
            G.want_hist = (int)kv(line, "hist", 0);
            G.spin = (unsigned)kv(line, "spin", 40);
            G.mode = (int)kv(line, "mode", 0);
            G.drain = (int)kv(line, "drain", 1);
            G.tick = (uint64_t)kv(line, "tick", 1);
            G.leakcheck = (int)kv(line, "leakcheck", 1);
            G.canary = (int)kv(line, "canary", 0);
        } else if (!strncmp(line, "env A ", 6) || !strncmp(line, "env B ", 6)) {
            char *dst = line[4] == 'A' ? g_envA : g_envB;
            strncpy(dst, line + 6, 255);
            char *e = dst + strlen(dst);
            while (e > dst && e[-1] == '\n')
                *--e = 0;
        } else if (!strncmp(line, "env", 3)) {
            char *p = line + 3;
            while (*p == ' ')
                p++;
            if (g_nenv < 64) {
                strncpy(g_envbuf[g_nenv], p, 127);
                char *e = g_envbuf[g_nenv] + strlen(g_envbuf[g_nenv]);
                while (e > g_envbuf[g_nenv] && (e[-1] == ' ' || e[-1] == '\n'))
                    *--e = 0;
                g_nenv++;
            }
        } else if (!strncmp(line, "pool", 4)) {
            int i = (int)strtol(line + 4, NULL, 10);
            if (i < 0 || i >= MAXP)
                generr("bad pool index");
            G.pool[i].kind = lookup(kvs(line, "kind", tmp, sizeof tmp), pool_kinds);
            G.pool[i].access = lookup(kvs(line, "access", tmp, sizeof tmp), accesses);
            if (G.pool[i].kind < 0 || G.pool[i].access < 0)
                generr("bad pool line: %s", line);
            G.pool[i].policy = (int)kv(line, "policy", 0);
            if (i >= G.npool)
                G.npool = i + 1;
        } else if (!strncmp(line, "sub", 3)) {
            int i = (int)strtol(line + 3, NULL, 10);
            if (i < 0 || i >= MAXX)
                generr("bad sub index");
            G.sub[i].sched = lookup(kvs(line, "sched", tmp, sizeof tmp), scheds);
            if (G.sub[i].sched < 1)
                generr("bad sub sched: %s", line);
            char pl[64];
            kvs(line, "pools", pl, sizeof pl);
            G.sub[i].npools = 0;
            char *sv;
            for (char *t = strtok_r(pl, ",", &sv); t; t = strtok_r(NULL, ",", &sv))
                G.sub[i].pools[G.sub[i].npools++] = atoi(t);
            if (i >= G.nsub)
                G.nsub = i + 1;
        } else if (!strncmp(line, "xs", 2)) {
            int i = (int)strtol(line + 2, NULL, 10);
            if (i < 0 || i >= MAXX)
                generr("bad xs index");
            G.xs[i].sched = lookup(kvs(line, "sched", tmp, sizeof tmp), scheds);
            if (G.xs[i].sched < 0)
                generr("bad sched: %s", line);
            G.xs[i].late = (int)kv(line, "late", 0);
            char pl[64];
            kvs(line, "pools", pl, sizeof pl);
            G.xs[i].npools = 0;
            char *sv;
            for (char *t = strtok_r(pl, ",", &sv); t; t = strtok_r(NULL, ",", &sv))
                G.xs[i].pools[G.xs[i].npools++] = atoi(t);
            kvs(line, "alt", pl, sizeof pl);
            G.xs[i].nalt = 0;
            for (char *t = strtok_r(pl, ",", &sv); t; t = strtok_r(NULL, ",", &sv))
                G.xs[i].alt[G.xs[i].nalt++] = atoi(t);
            if (i >= G.nxs)
                G.nxs = i + 1;
        } else if (!strncmp(line, "mutex", 5)) {
            int i = (int)strtol(line + 5, NULL, 10);
            static const char *const mk[] = { "dyn", "rec", "static", "staticrec", NULL };
            G.mutex_kind[i] = lookup(kvs(line, "kind", tmp, sizeof tmp), mk);
            if (G.mutex_kind[i] < 0)
                G.mutex_kind[i] = 0;
            if (i >= G.nmutex)
                G.nmutex = i + 1;
        } else if (!strncmp(line, "cond", 4)) {
            int i = (int)strtol(line + 4, NULL, 10);
            static const char *const ck[] = { "dyn", "static", NULL };
            G.cond_kind[i] = lookup(kvs(line, "kind", tmp, sizeof tmp), ck);
            if (G.cond_kind[i] < 0)
                G.cond_kind[i] = 0;
            if (i >= G.ncond)
                G.ncond = i + 1;
        } else if (!strncmp(line, "barrier", 7)) {
            int i = (int)strtol(line + 7, NULL, 10);
            G.barrier_n[i] = (int)kv(line, "n", 1);
            if (i >= G.nbarrier)
                G.nbarrier = i + 1;
        } else if (!strncmp(line, "eventual", 8)) {
            int i = (int)strtol(line + 8, NULL, 10);
            G.ev_nbytes[i] = (int)kv(line, "nbytes", 0);
            if (i >= G.neventual)
                G.neventual = i + 1;
        } else if (!strncmp(line, "future", 6)) {
            int i = (int)strtol(line + 6, NULL, 10);
            G.fut_n[i] = (int)kv(line, "n", 1);
            G.fut_cb[i] = (int)kv(line, "cb", 0);
            if (i >= G.nfuture)
                G.nfuture = i + 1;
        } else if (!strncmp(line, "rwlock", 6)) {
            int i = (int)strtol(line + 6, NULL, 10);
            if (i >= G.nrwlock)
                G.nrwlock = i + 1;
        } else if (!strncmp(line, "key", 3)) {
            int i = (int)strtol(line + 3, NULL, 10);
            G.key_dtor[i] = (int)kv(line, "dtor", 0);
            if (i >= G.nkey)
                G.nkey = i + 1;
        } else if (!strncmp(line, "unit", 4)) {
            int i = (int)strtol(line + 4, NULL, 10);
            if (i < 0 || i >= MAXU)
                generr("bad unit index");
            actor *a = &G.unit[i];
            a->kind = A_UNIT;
            a->id = i;
            static const char *const ut[] = { "ult", "task", NULL };
            a->utype = lookup(kvs(line, "type", tmp, sizeof tmp), ut);
            if (a->utype < 0)
                a->utype = 0;
            a->named = (int)kv(line, "named", 1);
            a->pool = (int)kv(line, "pool", 0);
            a->migratable = (int)kv(line, "migratable", 1);
            a->has_cb = (int)kv(line, "cb", 0);
            a->stackkind = (int)kv(line, "stackkind", 0);
            a->stacksize = kv(line, "stack", 0);
            a->stackoff = kv(line, "stackoff", 0);
            if (opstr)
                parse_ops(a, opstr);
            if (i >= G.nunit)
                G.nunit = i + 1;
        } else if (!strncmp(line, "ext", 3)) {
            int i = (int)strtol(line + 3, NULL, 10);
            if (i < 0 || i >= MAXEXT)
                generr("bad ext index");
            actor *a = &G.ext[i];
            a->kind = A_EXT;
            a->id = i;
            if (opstr)
                parse_ops(a, opstr);
            if (i >= G.next)
                G.next = i + 1;
        } else if (!strncmp(line, "main", 4)) {
            if (opstr)
                parse_ops(&G.main_a, opstr);
        } else if (!strncmp(line, "mp ", 3)) {
            mp_line(line);
        } else if (!strncmp(line, "ft ", 3)) {
            ft_line(line);
        } else if (!strncmp(line, "expect", 6) || !strncmp(line, "note", 4)) {
            /* for the offline oracle / humans */
        } else {
            generr("unknown line: %s", line);
        }
    }
}

/* ------------------------------------------------------------------ */
int __lsan_do_recoverable_leak_check(void) __attribute__((weak));
static void run_case(void)
{
    for (int i = 0; i < g_nenv; i++)
        putenv(g_envbuf[i]);
    if (!getenv("ABT_SET_AFFINITY"))
        putenv("ABT_SET_AFFINITY=0");
    ds_set_hang_cb(on_hang);
    if (!G.native) {
        ds_cfg c;
        memset(&c, 0, sizeof(c));
        c.seed = G.seed;
        c.strat = G.strat;
        c.mask = G.mask;
        c.pct_d = G.pct_d;
        c.pct_len = G.pct_len;
        c.step_limit = G.step_limit;
        c.spin_thresh = G.spin;
        c.tick_ns = G.tick;
        ds_begin(&c);
    }
    if (G.mode != 0)
        run_special_mode();
    else
        run_program();
    if (!G.native)
        ds_end();
    save_counters();
    /* the child leaves through _exit(): ask LeakSanitizer explicitly */
    if (__lsan_do_recoverable_leak_check && G.leakcheck && __lsan_do_recoverable_leak_check())
        viol("LeakSanitizer: memory allocated during the case was not released by ABT_finalize");
}

static void sigalrm_parent(int s)
{
    (void)s;
}

int main(int argc, char **argv)
{
    /* no ASLR: runs must be pure functions of (binary, case) */
    if (!getenv("ABTX_NOASLR_DONE")) {
        int p = personality(0xffffffff);
        if (p != -1 && !(p & ADDR_NO_RANDOMIZE) && personality(p | ADDR_NO_RANDOMIZE) != -1) {
            setenv("ABTX_NOASLR_DONE", "1", 1);
            execv("/proc/self/exe", argv);
        }
    }
    int wall_ms = 20000;
    for (int i = 1; i < argc; i++)
        if (!strncmp(argv[i], "--wall=", 7))
            wall_ms = atoi(argv[i] + 7);
    R = mmap(NULL, sizeof(struct result), PROT_READ | PROT_WRITE,
             MAP_SHARED | MAP_ANONYMOUS, -1, 0);
    if (R == MAP_FAILED) {
        perror("mmap");
        return 2;
    }
    signal(SIGALRM, sigalrm_parent);
    size_t cap = 1 << 20, len = 0;
    static char *text; /* static: stays reachable for the child's leak check */
    text = malloc(cap);
    char line[4096];
    setvbuf(stdout, NULL, _IOFBF, 1 << 16);
    while (fgets(line, sizeof(line), stdin)) {
        if (strcmp(line, "END\n") != 0) {
            size_t l = strlen(line);
            if (len + l + 1 > cap) {
                cap *= 2;
                text = realloc(text, cap);
            }
            memcpy(text + len, line, l);
            len += l;
            continue;
        }
        text[len] = 0;
        len = 0;
        R->len = 0;
        R->nstat = 0;
        R->lock = 0;
        R->steps = R->switches = R->spin_sleeps = R->clock_jumps = 0;
        char errname[] = "/tmp/abtx-err-XXXXXX";
        int efd = mkstemp(errname);
        unlink(errname);
        struct timespec t0, t1;
        clock_gettime(CLOCK_MONOTONIC, &t0);
        fflush(stdout);
        pid_t pid = fork();
        if (pid == 0) {
            if (!getenv("ABTX_KEEP_STDERR")) dup2(efd, 2);
            close(efd);
            int nfd = open("/dev/null", O_WRONLY);
            dup2(nfd, 1);
            parse_case(text);
            run_case();
            _exit(0);
        }
        int status = 0, timedout = 0;
        /* wall-clock guard: inconclusive, never a violation */
        int waited = 0;
        for (;;) {
            pid_t r = waitpid(pid, &status, WNOHANG);
            if (r == pid)
                break;
            struct timespec ts = { 0, waited < 50 ? 200000 : 2000000 };
            nanosleep(&ts, NULL);
            waited++;
            clock_gettime(CLOCK_MONOTONIC, &t1);
            long ms = (t1.tv_sec - t0.tv_sec) * 1000 + (t1.tv_nsec - t0.tv_nsec) / 1000000;
            if (ms > wall_ms) {
                struct rusage ru;
                kill(pid, SIGKILL);
                wait4(pid, &status, 0, &ru);
                double cpu = ru.ru_utime.tv_sec + ru.ru_utime.tv_usec / 1e6 +
                             ru.ru_stime.tv_sec + ru.ru_stime.tv_usec / 1e6;
                /* the child had the CPU for most of the budget and still did not
                 * finish a case that normally takes milliseconds: a loop without
                 * scheduling points (e.g. a cyclic list).  Otherwise the machine
                 * was busy: inconclusive. */
                timedout = (cpu * 1000.0 > 0.6 * wall_ms) ? 2 : 1;
                break;
            }
        }
        clock_gettime(CLOCK_MONOTONIC, &t1);
        double ms = (t1.tv_sec - t0.tv_sec) * 1e3 + (t1.tv_nsec - t0.tv_nsec) / 1e6;
        fwrite(R->text, 1, R->len, stdout);
        for (int i = 0; i < R->nstat; i++)
            printf("S %s %ld\n", R->st[i].key, R->st[i].v);
        const char *verdict = "ok";
        int code = WIFEXITED(status) ? WEXITSTATUS(status) : -1;
        int sig = WIFSIGNALED(status) ? WTERMSIG(status) : 0;
        if (timedout == 2) {
            verdict = "hang";
            printf("H cpuloop no scheduling point reached within the CPU budget\n");
        } else if (timedout)
            verdict = "timeout";
        else if (sig == SIGABRT)
            verdict = "abort";
        else if (sig)
            verdict = "crash";
        else if (code == 0)
            verdict = "ok";
        else if (code == 10)
            verdict = "violation";
        else if (code == 3)
            verdict = "hang";
        else if (code == 11)
            verdict = "generr";
        else if (code == 21 || code == 1)
            verdict = "sanitizer";
        else
            verdict = "internal";
        if (strcmp(verdict, "ok") != 0) {
            /* tail of the child's stderr */
            off_t sz = lseek(efd, 0, SEEK_END);
            off_t from = sz > 3000 ? sz - 3000 : 0;
            char eb[3001];
            ssize_t n = pread(efd, eb, 3000, from);
            if (n > 0) {
                eb[n] = 0;
                char *sv;
                for (char *l = strtok_r(eb, "\n", &sv); l; l = strtok_r(NULL, "\n", &sv))
                    printf("E %s\n", l);
            }
        }
        close(efd);
        printf("DONE verdict=%s exit=%d sig=%d steps=%lu switches=%lu spins=%lu "
               "jumps=%lu ms=%.2f\n",
               verdict, code, sig, (unsigned long)R->steps, (unsigned long)R->switches,
               (unsigned long)R->spin_sleeps, (unsigned long)R->clock_jumps, ms);
        fflush(stdout);
    }
    free(text);
    return 0;
}
