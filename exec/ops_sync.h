/* ops_sync.h: condition variables (C05, C19), barriers (C08), eventuals and
 * futures (C09), reader-writer locks (C10).  Included by ops.h. */

/* ---- harness variables -------------------------------------------- */
static void var_add(int v, long d)
{
    __atomic_add_fetch(&G.var[v], d, __ATOMIC_SEQ_CST);
    if (ds_active())
        ds_touch();
}
/* Polling discipline: wait_arm() BEFORE the condition is evaluated, then
 * actor_wait_step() if it does not hold.  An external thread sleeps only if
 * nothing was written since the arm, and re-arms when it wakes up. */
static __thread uint64_t t_wait_epoch;
static void wait_arm(void)
{
    t_wait_epoch = ds_epoch();
}
static void actor_wait_step(actor *a)
{
    if (a->kind == A_UNIT && a->utype == U_TASK)
        generr("tasklet cannot poll");
    if (is_ult_actor(a)) {
        actor_yield(a);
    } else {
        ds_wait_since(t_wait_epoch);
        wait_arm();
    }
}
static void op_awaitvar(actor *a, int v, long n)
{
    wait_arm();
    while (__atomic_load_n(&G.var[v], __ATOMIC_SEQ_CST) < n)
        actor_wait_step(a);
}

/* like awaitvar, but virtual time flows (quantum_us per poll) while waiting:
 * a relative futex timeout computed just before a clock jump, or by a thread
 * that was descheduled meanwhile, overshoots its absolute deadline by an
 * unbounded amount - legal for a timed wait - so "eventually times out" needs
 * a clock that keeps running */
static void op_awaitvar_t(actor *a, int v, long n, long quantum_us)
{
    wait_arm();
    while (__atomic_load_n(&G.var[v], __ATOMIC_SEQ_CST) < n) {
        actor_wait_step(a);
        if (ds_active() && quantum_us > 0)
            ds_advance((uint64_t)quantum_us * 1000ull);
    }
}

/* ---- C05 / C19: condition variables -------------------------------- */
/* all of this bookkeeping is only touched while the caller holds the mutex
 * of the monitor, except ret_* which are atomics */
static int c_registered[MAXO], c_credited[MAXO], c_credits[MAXO], c_left[MAXO];
static int c_ret_ok[MAXO], c_ret_to[MAXO];
static uint64_t c_last_reg_step[MAXO];
#define CVAR_REG(c) (32 + (c)*4 + 0)
#define CVAR_OK(c) (32 + (c)*4 + 1)
#define CVAR_TO(c) (32 + (c)*4 + 2)
#define CVAR_CRED(c) (32 + (c)*4 + 3)

static uint64_t g_clock0;

static void cond_before_wait(actor *a, int c, int m)
{
    if (ALOAD(m_holder[m]) != a || m_depth[m] != 1)
        generr("cond wait without holding mutex %d exactly once", m);
    c_registered[c]++;
    c_last_reg_step[c] = now_step();
    hist(a, "cwait_call", c, m, 0);
    var_add(CVAR_REG(c), 1);
    m_depth[m] = 0;
    ASTORE(m_holder[m], NULL); /* the wait releases the mutex */
}
static void op_cwait(actor *a, int c, int m, int timed, long dl_ms)
{
    cond_before_wait(a, c, m);
    int rc;
    uint64_t deadline = 0;
    if (timed) {
        deadline = g_clock0 + (uint64_t)((int64_t)dl_ms * 1000000ll);
        struct timespec ts = { (time_t)(deadline / 1000000000ull),
                               (long)(deadline % 1000000000ull) };
        rc = ABT_cond_timedwait(G.cond[c], G.mutex[m], &ts);
    } else {
        rc = ABT_cond_wait(G.cond[c], G.mutex[m]);
    }
    /* back under the mutex */
    m_acquired(a, m, "cond_wait");
    if (m_recursive(m)) {
        /* "a waiter always returns holding the mutex": for a recursive mutex that means
         * as its owner, so a nested acquisition by the waiter must succeed at once */
        int rc2 = ABT_mutex_trylock(G.mutex[m]);
        if (rc2 != ABT_SUCCESS)
            viol("cond %d: waiter returned (rc %d) without owning recursive mutex %d: nested "
                 "trylock returned %d", c, rc, m, rc2);
        rc2 = ABT_mutex_unlock(G.mutex[m]);
        CHECK_RC(rc2, "nested unlock after cond wait");
        stat_add("cond_recursive_owner_checked", 1);
    }
    if (rc == ABT_SUCCESS) {
        if (c_credits[c] <= 0)
            viol("cond %d: waiter returned ABT_SUCCESS without having been signalled "
                 "(registered=%d credited=%d left=%d)",
                 c, c_registered[c], c_credited[c], c_left[c]);
        c_credits[c]--;
        c_left[c]++;
        c_ret_ok[c]++;
        hist(a, "cwait_ok", c, 0, 0);
        var_add(CVAR_OK(c), 1);
    } else if (timed && rc == ABT_ERR_COND_TIMEDOUT) {
        uint64_t now = ds_now();
        if (now < deadline)
            viol("cond %d: timedwait returned TIMEDOUT %lu ns before its deadline", c,
                 (unsigned long)(deadline - now));
        c_left[c]++;
        c_ret_to[c]++;
        /* a signal may have been issued for this waiter after it had already
         * left the queue: that signal woke nobody, retire its credit */
        int waiting = c_registered[c] - c_left[c];
        if (c_credits[c] > waiting) {
            c_credits[c]--;
            stat_add("cond_credit_retired", 1);
        }
        hist(a, "cwait_timedout", c, 0, 0);
        stat_add("cond_timedout", 1);
        var_add(CVAR_TO(c), 1);
    } else {
        viol("cond wait returned %d", rc);
    }
}
static void op_cwait_rej(actor *a, int c, int m)
{
    /* 1.x API: a tasklet is refused and must keep the mutex */
    if (ALOAD(m_holder[m]) != a)
        generr("cwait_rej without the mutex");
    int rc = ABT_cond_wait(G.cond[c], G.mutex[m]);
    if (rc != ABT_ERR_COND)
        viol("ABT_cond_wait on a tasklet returned %d, expected ABT_ERR_COND", rc);
    stat_add("tasklet_rejected", 1);
}
/* caller holds the monitor mutex */
static void cond_signal_locked(actor *a, int c, int bcast)
{
    int uncredited = c_registered[c] - c_left[c] - c_credits[c];
    if (uncredited < 0)
        uncredited = 0;
    if (uncredited >= 2)
        stat_add("signal_with_2_waiters", 1);
    if (uncredited >= 1 && now_step() - c_last_reg_step[c] < 80)
        stat_add("signal_racing_enqueue", 1);
    int rc;
    if (bcast) {
        c_credits[c] += uncredited;
        c_credited[c] += uncredited;
        hist(a, "cbroadcast", c, uncredited, 0);
        rc = ABT_cond_broadcast(G.cond[c]);
        stat_add("broadcasts", 1);
    } else {
        if (uncredited > 0) {
            c_credits[c]++;
            c_credited[c]++;
        } else {
            stat_add("signal_no_waiter", 1);
        }
        hist(a, "csignal", c, uncredited, 0);
        rc = ABT_cond_signal(G.cond[c]);
        stat_add("signals", 1);
    }
    CHECK_RC(rc, "ABT_cond_signal/broadcast");
    __atomic_store_n(&G.var[CVAR_CRED(c)], c_credited[c], __ATOMIC_SEQ_CST);
}
static void op_csignal(actor *a, int c, int m, int bcast)
{
    if (ALOAD(m_holder[m]) != a)
        generr("signal outside the monitor");
    cond_signal_locked(a, c, bcast);
}
/* signaller loop: until `total` waits have returned.
 * pattern bits 0..15: signal (0) or broadcast (1) per iteration; bit 16: issue
 * one signal with no waiter first; bit 17: "racy" mode for conds whose waiters
 * can time out concurrently: a credit issued for a waiter that has already left
 * the queue internally cannot be told from one still on its way back, so after
 * a stall the loop signals again with an extra credit (sound: a SUCCESS still
 * needs a credit; exactness of the count is given up, see DESIGN.md C19). */
static int c_racy[MAXO];
static void op_csigloop(actor *a, int c, int m, long total, long pattern)
{
    int it = 0, stall = 0, last_left = -1;
    int racy = (int)((pattern >> 17) & 1);
    if (racy)
        c_racy[c] = 1;
    for (;;) {
        wait_arm();
        op_lock(a, m, 0);
        int done = (c_left[c] >= total);
        int waiting = c_registered[c] - c_left[c];
        int uncredited = waiting - c_credits[c];
        if (c_left[c] != last_left) {
            last_left = c_left[c];
            stall = 0;
        } else {
            stall++;
        }
        if (!done && uncredited > 0) {
            cond_signal_locked(a, c, (pattern >> (it % 16)) & 1);
            it++;
        } else if (!done && racy && waiting > 0 && stall >= 40) {
            c_credits[c]++;
            c_credited[c]++;
            int rc = ABT_cond_signal(G.cond[c]);
            CHECK_RC(rc, "ABT_cond_signal");
            stat_add("cond_overcredit", 1);
            stall = 0;
        } else if (!done && ((pattern >> 16) & 1) && it == 0) {
            /* a signal with no waiter: must wake nobody */
            cond_signal_locked(a, c, 0);
            it++;
        }
        op_unlock(a, m, 0);
        if (done)
            break;
        actor_wait_step(a);
    }
}

/* ---- C08: barriers -------------------------------------------------- */
#define MAXROUND 64
static int b_arrived[MAXO][MAXROUND];
static int b_n[MAXO];
static int b_round_base[MAXO];
static int a_round[MAXU + MAXEXT + 1][MAXO];
static int a_gen[MAXU + MAXEXT + 1][MAXO];
static int b_gen[MAXO];
static int actor_slot(actor *a)
{
    return a->kind == A_MAIN ? 0 : a->kind == A_EXT ? 1 + a->id : 1 + MAXEXT + a->id;
}
static void op_bwait(actor *a, int b)
{
    int s = actor_slot(a);
    if (a_gen[s][b] != b_gen[b]) {
        a_gen[s][b] = b_gen[b];
        a_round[s][b] = b_round_base[b];
    }
    int r = a_round[s][b]++;
    if (r + 1 >= MAXROUND)
        generr("too many barrier rounds");
    int n = b_n[b];
    int gen0 = ALOAD(b_gen[b]);
    int before = AINC(b_arrived[b][r]);
    if (before > n)
        generr("more than n participants in a barrier round");
    if (r > 0 && ALOAD(b_arrived[b][r - 1]) == n && before < n)
        ; /* normal */
    /* re-entering while slow ones are still leaving the previous round? */
    hist(a, "bwait_call", b, r, 0);
    int rc = ABT_barrier_wait(G.barrier[b]);
    CHECK_RC(rc, "ABT_barrier_wait");
    int got = ALOAD(b_arrived[b][r]);
    if (got != n)
        viol("barrier %d round %d: a waiter was released after %d of %d arrivals", b, r, got, n);
    int nxt = ALOAD(b_arrived[b][r + 1]);
    if (nxt > n && ALOAD(b_gen[b]) == gen0) /* (a reinit may have raised the count meanwhile) */
        viol("barrier %d round %d: %d arrivals counted for the next round", b, r + 1, nxt);
    if (nxt > 0)
        stat_add("barrier_overlap", 1); /* somebody already re-entered */
    hist(a, "bwait_ret", b, r, 0);
    stat_add("barrier_waits", 1);
}
static void op_bwait_rej(actor *a, int b)
{
    (void)a;
    int rc = ABT_barrier_wait(G.barrier[b]);
    if (rc != ABT_ERR_BARRIER)
        viol("ABT_barrier_wait on a tasklet returned %d, expected ABT_ERR_BARRIER", rc);
    stat_add("tasklet_rejected", 1);
}
static void op_breinit(actor *a, int b, int n)
{
    (void)a;
    /* only at a quiescent point: every started round is complete */
    int rc = ABT_barrier_reinit(G.barrier[b], (uint32_t)n);
    CHECK_RC(rc, "ABT_barrier_reinit");
    int top = 0;
    for (int r = 0; r < MAXROUND; r++)
        if (b_arrived[b][r])
            top = r + 1;
    b_round_base[b] = top;
    b_n[b] = n;
    AINC(b_gen[b]);
    uint32_t q = 0;
    rc = ABT_barrier_get_num_waiters(G.barrier[b], &q);
    CHECK_RC(rc, "ABT_barrier_get_num_waiters");
    if ((int)q != n)
        viol("barrier %d: get_num_waiters %u after reinit to %d", b, q, n);
    stat_add("barrier_reinit", 1);
}

/* ---- C09: eventuals -------------------------------------------------- */
static int ev_started[MAXO];     /* sets started in this generation */
static int ev_succeeded[MAXO];   /* sets that returned SUCCESS */
static int ev_winner[MAXO];      /* value id of the successful set */
static int ev_started_vals[MAXO][32];
static int ev_observed[MAXO][64], ev_nobs[MAXO];
static int ev_waiting[MAXO];

static void ev_fill(unsigned char *buf, int nbytes, int val)
{
    for (int i = 0; i < nbytes; i++)
        buf[i] = (unsigned char)(val * 37 + i * 11 + 1);
}
static int ev_decode(const unsigned char *buf, int nbytes, int e)
{
    /* which started value does the buffer hold? -1 if none/inconsistent */
    for (int k = 0; k < ev_started[e] && k < 32; k++) {
        unsigned char exp[64];
        ev_fill(exp, nbytes, ev_started_vals[e][k]);
        if (!memcmp(exp, buf, (size_t)nbytes))
            return ev_started_vals[e][k];
    }
    return -1;
}
static void ev_observe(int e, const void *p, const char *who)
{
    int nb = G.ev_nbytes[e];
    if (nb == 0) {
        if (p != NULL)
            viol("eventual %d (0 bytes): %s returned a non-NULL value pointer", e, who);
        return;
    }
    if (!p)
        viol("eventual %d: %s returned a NULL value pointer", e, who);
    unsigned char tmp[64];
    memcpy(tmp, p, (size_t)nb);
    int v = ev_decode(tmp, nb, e);
    if (v < 0)
        viol("eventual %d: %s read bytes that no set of this generation wrote (torn or stale value)", e, who);
    rlock();
    if (ev_nobs[e] < 64)
        ev_observed[e][ev_nobs[e]++] = v;
    runlock();
}
static void op_evset(actor *a, int e, int val)
{
    unsigned char buf[64];
    int nb = G.ev_nbytes[e];
    ev_fill(buf, nb, val);
    rlock();
    int k = ev_started[e];
    if (k < 32)
        ev_started_vals[e][k] = val;
    __atomic_store_n(&ev_started[e], k + 1, __ATOMIC_SEQ_CST);
    runlock();
    if (ALOAD(ev_waiting[e]) > 0)
        stat_add("set_with_waiter", 1);
    hist(a, "evset_call", e, val, 0);
    int rc = ABT_eventual_set(G.eventual[e], nb ? buf : NULL, nb);
    if (rc == ABT_SUCCESS) {
        if (AINC(ev_succeeded[e]) > 1)
            viol("eventual %d: two sets succeeded without a reset", e);
        ev_winner[e] = val;
    } else if (rc == ABT_ERR_EVENTUAL) {
        /* legal only if another set of this generation exists */
        if (ALOAD(ev_started[e]) < 2)
            viol("eventual %d: the only set returned ABT_ERR_EVENTUAL", e);
        stat_add("second_set_rejected", 1);
    } else {
        viol("ABT_eventual_set returned %d", rc);
    }
    hist(a, "evset_ret", e, val, rc);
}
static void op_evwait(actor *a, int e)
{
    void *p = (void *)0x1;
    AINC(ev_waiting[e]);
    if (ALOAD(ev_started[e]) == 0)
        stat_add("wait_before_set", 1);
    hist(a, "evwait_call", e, 0, 0);
    int rc = ABT_eventual_wait(G.eventual[e], &p);
    ADEC(ev_waiting[e]);
    CHECK_RC(rc, "ABT_eventual_wait");
    if (ALOAD(ev_started[e]) == 0)
        viol("eventual %d: wait returned before any set was issued", e);
    ev_observe(e, p, "wait");
    hist(a, "evwait_ret", e, 0, 0);
    stat_add("ev_waits", 1);
}
static void op_evwait_rej(actor *a, int e)
{
    (void)a;
    void *p;
    int rc = ABT_eventual_wait(G.eventual[e], &p);
    if (rc != ABT_ERR_EVENTUAL)
        viol("ABT_eventual_wait on a tasklet returned %d, expected ABT_ERR_EVENTUAL", rc);
    stat_add("tasklet_rejected", 1);
}
static void op_evtest(actor *a, int e)
{
    (void)a;
    void *p = (void *)0x1;
    ABT_bool ready = ABT_FALSE;
    int done0 = ALOAD(ev_succeeded[e]);
    int rc = ABT_eventual_test(G.eventual[e], &p, &ready);
    CHECK_RC(rc, "ABT_eventual_test");
    if (ready) {
        if (ALOAD(ev_started[e]) == 0)
            viol("eventual %d: test reported ready before any set", e);
        ev_observe(e, p, "test");
        stat_add("ev_test_ready", 1);
    } else {
        if (done0 > 0)
            viol("eventual %d: test reported not ready after a set had returned success", e);
        stat_add("ev_test_notready", 1);
    }
}
static void ev_final_check(int e)
{
    if (ev_started[e] > 0 && ev_succeeded[e] != 1)
        viol("eventual %d: %d sets were issued but %d succeeded", e, ev_started[e], ev_succeeded[e]);
    for (int i = 0; i < ev_nobs[e]; i++)
        if (ev_observed[e][i] != ev_winner[e])
            viol("eventual %d: a waiter/tester read value %d but the first (successful) set wrote %d",
                 e, ev_observed[e][i], ev_winner[e]);
}
static void op_evreset(actor *a, int e)
{
    (void)a;
    ev_final_check(e);
    int rc = ABT_eventual_reset(G.eventual[e]);
    CHECK_RC(rc, "ABT_eventual_reset");
    ev_started[e] = ev_succeeded[e] = ev_nobs[e] = 0;
    ABT_bool ready = ABT_TRUE;
    rc = ABT_eventual_test(G.eventual[e], NULL, &ready);
    CHECK_RC(rc, "ABT_eventual_test");
    if (ready)
        viol("eventual %d still ready after reset", e);
    stat_add("ev_reset", 1);
}

/* ---- C09: futures ----------------------------------------------------- */
static int fu_started[MAXO], fu_succeeded[MAXO], fu_cb_count[MAXO], fu_waiting[MAXO];
static long fu_ok_vals[MAXO][16];
static long fu_cb_vals[MAXO][16];
static int fu_cb_bad[MAXO];

static void fu_callback_n(int f, void **args)
{
    int n = G.fut_n[f];
    /* a callback is user code and may take its time: give the others a chance to look at
     * the future while it has not even begun */
    if (ds_active()) {
        ds_point();
        ds_point();
    } else {
        for (volatile int spin = 0; spin < 200; spin++)
            ;
    }
    if (AINC(fu_cb_count[f]) > 1)
        fu_cb_bad[f] = 1;
    for (int i = 0; i < n && i < 16; i++)
        fu_cb_vals[f][i] = (long)(intptr_t)args[i];
    /* the callback runs before the future is ready */
    ABT_bool ready = ABT_FALSE;
    (void)ready;
}
#define FUCB(k)                                                                \
    static void fu_callback##k(void **args) { fu_callback_n(k, args); }
FUCB(0) FUCB(1) FUCB(2) FUCB(3) FUCB(4) FUCB(5) FUCB(6) FUCB(7)
static void (*const fu_cbs[MAXO])(void **) = { fu_callback0, fu_callback1, fu_callback2,
                                               fu_callback3, fu_callback4, fu_callback5,
                                               fu_callback6, fu_callback7 };
static void fu_ready_checks(int f, const char *who)
{
    int n = G.fut_n[f];
    if (ALOAD(fu_started[f]) < n)
        viol("future %d: %s saw it ready after %d of %d sets were issued", f, who,
             ALOAD(fu_started[f]), n);
    if (n > 0 && G.fut_cb[f] && ALOAD(fu_cb_count[f]) != 1)
        viol("future %d: %s saw it ready but the callback ran %d times", f, who,
             ALOAD(fu_cb_count[f]));
}
static void op_fuset(actor *a, int f, int val)
{
    AINC(fu_started[f]);
    if (ALOAD(fu_waiting[f]) > 0)
        stat_add("set_with_waiter", 1);
    hist(a, "fuset_call", f, val, 0);
    int rc = ABT_future_set(G.future[f], (void *)(intptr_t)(val + 1));
    if (rc == ABT_SUCCESS) {
        int k = AINC(fu_succeeded[f]);
        if (k > G.fut_n[f])
            viol("future %d: %d sets succeeded but it has %d compartments", f, k, G.fut_n[f]);
        fu_ok_vals[f][k - 1] = val + 1;
    } else if (rc == ABT_ERR_FUTURE) {
        if (ALOAD(fu_started[f]) <= G.fut_n[f])
            viol("future %d: set %d of %d returned ABT_ERR_FUTURE", f, ALOAD(fu_started[f]), G.fut_n[f]);
        stat_add("extra_set_rejected", 1);
    } else {
        viol("ABT_future_set returned %d", rc);
    }
    hist(a, "fuset_ret", f, val, rc);
}
static void op_fuwait(actor *a, int f)
{
    AINC(fu_waiting[f]);
    if (ALOAD(fu_started[f]) < G.fut_n[f])
        stat_add("wait_before_set", 1);
    hist(a, "fuwait_call", f, 0, 0);
    int rc = ABT_future_wait(G.future[f]);
    ADEC(fu_waiting[f]);
    CHECK_RC(rc, "ABT_future_wait");
    fu_ready_checks(f, "wait");
    hist(a, "fuwait_ret", f, 0, 0);
    stat_add("fu_waits", 1);
}
static void op_fuwait_rej(actor *a, int f)
{
    (void)a;
    int rc = ABT_future_wait(G.future[f]);
    if (rc != ABT_ERR_FUTURE)
        viol("ABT_future_wait on a tasklet returned %d, expected ABT_ERR_FUTURE", rc);
    stat_add("tasklet_rejected", 1);
}
static void op_futest(actor *a, int f)
{
    (void)a;
    ABT_bool ready = ABT_FALSE;
    int done0 = ALOAD(fu_succeeded[f]);
    int rc = ABT_future_test(G.future[f], &ready);
    CHECK_RC(rc, "ABT_future_test");
    if (ready) {
        fu_ready_checks(f, "test");
        stat_add("fu_test_ready", 1);
    } else {
        if (G.fut_n[f] == 0)
            viol("future %d with 0 compartments reported not ready", f);
        if (done0 >= G.fut_n[f])
            viol("future %d: test says not ready after all %d sets returned success", f, G.fut_n[f]);
    }
}
static void fu_final_check(int f)
{
    int n = G.fut_n[f];
    int want = fu_started[f] < n ? fu_started[f] : n;
    if (fu_succeeded[f] != want)
        viol("future %d: %d sets issued, %d compartments, but %d sets succeeded", f,
             fu_started[f], n, fu_succeeded[f]);
    int cbwant = (G.fut_cb[f] && n > 0 && fu_succeeded[f] == n) ? 1 : 0;
    if (fu_cb_count[f] != cbwant || fu_cb_bad[f])
        viol("future %d: callback ran %d times, expected %d", f, fu_cb_count[f], cbwant);
    if (cbwant) {
        /* the callback's argument array is a permutation of the successful values */
        for (int i = 0; i < n; i++) {
            int found = 0;
            for (int k = 0; k < n; k++)
                if (fu_cb_vals[f][k] == fu_ok_vals[f][i])
                    found++;
            if (found != 1)
                viol("future %d: callback arguments are not the values that were set", f);
        }
    }
}
static void op_fureset(actor *a, int f)
{
    (void)a;
    fu_final_check(f);
    int rc = ABT_future_reset(G.future[f]);
    CHECK_RC(rc, "ABT_future_reset");
    fu_started[f] = fu_succeeded[f] = fu_cb_count[f] = 0;
    ABT_bool ready = ABT_TRUE;
    rc = ABT_future_test(G.future[f], &ready);
    CHECK_RC(rc, "ABT_future_test");
    if (ready && G.fut_n[f] > 0)
        viol("future %d still ready after reset", f);
    stat_add("fu_reset", 1);
}

/* ---- C10: reader-writer locks ------------------------------------------ */
static int rw_readers[MAXO], rw_writers[MAXO], rw_wwaiting[MAXO];
static void op_rdlock(actor *a, int r)
{
    if (ALOAD(rw_writers[r]) > 0)
        stat_add("reader_waits_for_writer", 1);
    if (ALOAD(rw_readers[r]) > 0 && ALOAD(rw_wwaiting[r]) > 0)
        stat_add("reader_joins_with_writer_queued", 1);
    int rc = ABT_rwlock_rdlock(G.rwlock[r]);
    CHECK_RC(rc, "ABT_rwlock_rdlock");
    if (ALOAD(rw_writers[r]) != 0)
        viol("rwlock %d: reader acquired while a writer holds the lock", r);
    if (AINC(rw_readers[r]) >= 2)
        stat_add("shared_readers", 1);
    a->rheld[r] = 1;
    stat_add("rdlocks", 1);
}
static void op_wrlock(actor *a, int r)
{
    int rd = ALOAD(rw_readers[r]);
    if (rd >= 2)
        stat_add("writer_waits_for_2_readers", 1);
    if (rd >= 1 || ALOAD(rw_writers[r]))
        stat_add("writer_waits", 1);
    AINC(rw_wwaiting[r]);
    int rc = ABT_rwlock_wrlock(G.rwlock[r]);
    ADEC(rw_wwaiting[r]);
    CHECK_RC(rc, "ABT_rwlock_wrlock");
    if (ALOAD(rw_readers[r]) != 0 || ALOAD(rw_writers[r]) != 0)
        viol("rwlock %d: writer acquired while %d reader(s) and %d writer(s) hold the lock", r,
             ALOAD(rw_readers[r]), ALOAD(rw_writers[r]));
    ASTORE(rw_writers[r], 1);
    a->rheld[r] = 2;
    stat_add("wrlocks", 1);
}
static void op_rwunlock(actor *a, int r)
{
    if (a->rheld[r] == 1)
        ADEC(rw_readers[r]);
    else if (a->rheld[r] == 2)
        ASTORE(rw_writers[r], 0);
    else
        generr("rwunlock without holding");
    a->rheld[r] = 0;
    int rc = ABT_rwlock_unlock(G.rwlock[r]);
    CHECK_RC(rc, "ABT_rwlock_unlock");
}
/* many read holds at once (the library does not track who holds a read lock, so nested
 * holds of one ULT count like as many readers) */
static void op_rdlockn(actor *a, int r, long n)
{
    (void)a;
    for (long i = 0; i < n; i++) {
        int rc = ABT_rwlock_rdlock(G.rwlock[r]);
        CHECK_RC(rc, "ABT_rwlock_rdlock");
        if (ALOAD(rw_writers[r]) != 0)
            viol("rwlock %d: reader acquired while a writer holds the lock", r);
        AINC(rw_readers[r]);
    }
    stat_add("rdlocks", n);
    stat_max("max_read_holds", n);
}
static void op_rwunlockn(actor *a, int r, long n)
{
    (void)a;
    for (long i = 0; i < n; i++) {
        ADEC(rw_readers[r]);
        int rc = ABT_rwlock_unlock(G.rwlock[r]);
        CHECK_RC(rc, "ABT_rwlock_unlock");
    }
}
static void op_rwlock_rej(actor *a, int r, int wr)
{
    (void)a;
    int rc = wr ? ABT_rwlock_wrlock(G.rwlock[r]) : ABT_rwlock_rdlock(G.rwlock[r]);
    if (rc != ABT_ERR_RWLOCK)
        viol("ABT_rwlock_%slock on a tasklet returned %d, expected ABT_ERR_RWLOCK",
             wr ? "wr" : "rd", rc);
    stat_add("tasklet_rejected", 1);
}
