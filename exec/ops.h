/* ops.h: the op interpreter of abtx.  Included once by abtx.c. */

#define OPLIST(X)                                                              \
    X(nop) X(create) X(join) X(free) X(yield) X(yieldn) X(fset) X(fwait)       \
    X(lock) X(lock_low) X(lock_high) X(spinlock) X(trylock) X(unlock)         \
    X(unlock_se) X(unlock_de) X(work)                                         \
    X(awaitvar) X(awaitvar_t) X(varadd) X(advance) X(cwait) X(ctimedwait) X(cwait_rej) X(csignal)      \
    X(cbroadcast) X(csigloop) X(bwait) X(bwait_rej) X(breinit) X(evset)       \
    X(evwait) X(evwait_rej) X(evtest) X(evreset) X(fuset) X(fuwait)           \
    X(fuwait_rej) X(futest) X(fureset) X(rdlock) X(wrlock) X(rwunlock)        \
    X(rdlock_rej) X(wrlock_rej)                                               \
    X(createto) X(createon) X(revive) X(reviveto) X(joinmany) X(freemany)     \
    X(payload) X(chkpayload) X(exit) X(cancel) X(xsjoin) X(xsfree)            \
    X(poolcheck) X(addsched)                                                  \
    X(susp) X(resume) X(sample) X(selfstate) X(expectstate) X(popyt) X(tyt)   \
    X(popsusp) X(ryt) X(rst) X(popexit) X(rexit) X(presume) X(migpool)        \
    X(migsched) X(migxs) X(migrate) X(setcb)                                  \
    X(keyset) X(selfset) X(tset) X(keyget) X(selfget) X(tget)                 \
    X(xscreate) X(xsbasic) X(setrank) X(rankcheck) X(xsrevive) X(setmain)      \
    X(ppush) X(ppushm) X(ppop) X(ppopm) X(premove) X(psize) X(uself) X(pmove) X(stackuse)    \
    X(rdlockn) X(rwunlockn) X(createmany) X(selfexit)

enum {
#define X(n) OP_##n,
    OPLIST(X)
#undef X
    OP__COUNT
};
static const char *const opnames[] = {
#define X(n) #n,
    OPLIST(X)
#undef X
    NULL
};

struct uarg {
    int unit, inc, fn;
};
static struct uarg g_uarg[MAXU][16];

static void exec_op(actor *a, op_t *o);
static void check_start_stream(actor *a);
static void notify_done(void);
static void migr_callback(ABT_thread thread, void *cb_arg);
static void op_addsched(actor *a, int p, int s);
static void op_uself(actor *a);
static void op_stackuse(actor *a, long permille);
static void stack_release(actor *a);
static void op_xscreate(actor *a, int xi, int rank, int exact, int basic);
static void op_setrank(actor *a, int xi, int rank);
static void op_rankcheck(actor *a, int check_num);
static void op_xsrevive(actor *a, int xi);
static void op_setmain(actor *a, int xi, int kind);

static int is_ult_actor(actor *a)
{
    return a->kind == A_MAIN || (a->kind == A_UNIT && a->utype == U_ULT);
}

struct op_thunk {
    actor *a;
    op_t *o;
};
static void exec_op(actor *a, op_t *o);
static void exec_op_thunk(void *p)
{
    struct op_thunk *t = (struct op_thunk *)p;
    exec_op(t->a, t->o);
}
unsigned long canary_call(void (*fn)(void *), void *arg, unsigned long seed);
static void run_ops(actor *a)
{
    volatile int pc; /* lives on the actor's own stack */
    for (pc = 0; pc < a->nops; pc++) {
        if (a->pc_heap != pc)
            viol("program counter mismatch before op: stack=%d heap=%d (actor kind %d id %d)",
                 pc, a->pc_heap, a->kind, a->id);
        if (a->skip_mutex >= 0) {
            /* body of a failed trylock: skip to the matching unlock */
            op_t *o = &a->ops[pc];
            if (o->a[0] == a->skip_mutex) {
                if (o->code == OP_lock || o->code == OP_lock_low || o->code == OP_lock_high ||
                    o->code == OP_spinlock || o->code == OP_trylock)
                    a->skip_depth++;
                else if (o->code == OP_unlock || o->code == OP_unlock_se ||
                         o->code == OP_unlock_de) {
                    if (a->skip_depth-- == 0)
                        a->skip_mutex = -1;
                }
            }
        } else {
            if (G.want_hist)
                hist(a, "op", a->ops[pc].code, 0, 0);
            /* one op of an actor at a time: two would mean it runs on two streams */
            if (__atomic_exchange_n(&a->in_op, 1, __ATOMIC_SEQ_CST))
                viol("actor (kind %d id %d) executes two operations at once: it runs on two "
                     "execution streams", a->kind, a->id);
            if (G.canary && a->kind != A_EXT && (a->kind == A_MAIN || a->utype == U_ULT)) {
                /* C02: live values in every callee-saved register, MXCSR, x87 CW and a
                 * stack block across whatever switches the op performs */
                struct op_thunk th = { a, &a->ops[pc] };
                unsigned long seed = (unsigned long)G.seed * 0x9E3779B97F4A7C15ul +
                                     (unsigned long)(a->id + 1) * 1000003ul + (unsigned long)pc;
                int r0 = -1, r1 = -1;
                ABT_self_get_xstream_rank(&r0);
                unsigned long bad = canary_call(exec_op_thunk, &th, seed);
                ABT_self_get_xstream_rank(&r1);
                if (r0 != r1)
                    stat_add("stream_hops", 1);
                if (bad)
                    viol("machine context of actor (kind %d id %d) not preserved across op %s: "
                         "changed%s%s%s%s%s%s%s%s%s", a->kind, a->id, opnames[a->ops[pc].code],
                         bad & 1 ? " rbx" : "", bad & 2 ? " rbp" : "", bad & 4 ? " r12" : "",
                         bad & 8 ? " r13" : "", bad & 16 ? " r14" : "", bad & 32 ? " r15" : "",
                         bad & 64 ? " MXCSR" : "", bad & 128 ? " x87-control-word" : "",
                         bad & 256 ? " stack-contents" : "");
                stat_add("canary_ops", 1);
            } else {
                exec_op(a, &a->ops[pc]);
            }
            __atomic_store_n(&a->in_op, 0, __ATOMIC_SEQ_CST);
        }
        if (a->pc_heap != pc)
            viol("program counter mismatch after op %s: stack=%d heap=%d (actor kind %d id %d)",
                 opnames[a->ops[pc].code], pc, a->pc_heap, a->kind, a->id);
        a->pc_heap = pc + 1;
    }
}

/* ------------------------------------------------------------------ */
/* work units                                                          */
static void unit_body(void *arg, int fnid)
{
    struct uarg *ua = (struct uarg *)arg;
    if (ua < &g_uarg[0][0] || ua >= &g_uarg[MAXU][0])
        viol("work unit started with a foreign argument %p", arg);
    actor *a = &G.unit[ua->unit];
    if (!a->created)
        viol("unit u%d runs but was never created", a->id);
    if (ua->inc != a->incarnation)
        viol("unit u%d started with the argument of incarnation %d, expected %d",
             a->id, ua->inc, a->incarnation);
    if (ua->fn != fnid)
        viol("unit u%d started with function %d, expected %d", a->id, fnid, ua->fn);
    if (a->running)
        viol("unit u%d started while it is already running", a->id);
    if (a->starts != a->incarnation - 1)
        viol("unit u%d incarnation %d started %d-th time", a->id, a->incarnation,
             a->starts + 1);
    a->running = 1;
    a->in_op = 0; /* a cancelled / exited incarnation never came back from its last op */
    a->starts++;
    stat_add("unit_starts", 1);
    hist(a, "start", ua->inc, fnid, 0);
    void *sarg = NULL;
    int rc = ABT_self_get_arg(&sarg);
    if (rc != ABT_SUCCESS || sarg != arg)
        viol("ABT_self_get_arg mismatch in u%d", a->id);
    check_start_stream(a);
    run_ops(a);
    hist(a, "end", ua->inc, 0, 0);
    stack_release(a);
    a->end_step = now_step();
    a->running = 0;
    a->ends++;
    notify_done();
}
void unit_fn0_shim(void *arg); /* canary.S: entry alignment check, then unit_fn0 */
void unit_fn1_shim(void *arg);
void unit_entry_misaligned(void *arg, long rspmod)
{
    (void)arg;
    viol("a work unit's function was entered with a misaligned stack (rsp %% 16 == %ld, the ABI demands 8)",
         rspmod);
}
void unit_fn0(void *arg)
{
    unit_body(arg, 0);
}
void unit_fn1(void *arg)
{
    unit_body(arg, 1);
}

static void *next_uarg(actor *u)
{
    u->incarnation++;
    if (u->incarnation >= 16)
        generr("too many incarnations");
    struct uarg *ua = &g_uarg[u->id][u->incarnation];
    ua->unit = u->id;
    ua->inc = u->incarnation;
    ua->fn = u->alt_fn;
    u->pc_heap = 0;
    return ua;
}

static void check_joined(actor *a, actor *u, const char *what)
{
    (void)a;
    if (u->cancelled) {
        /* a cancelled unit stops at a scheduling point: its function never
         * returns; it must simply never execute another op from now on */
        u->pc_at_join = u->pc_heap;
        u->join_seen = 1;
        stat_add("joined_cancelled", 1);
        return;
    }
    if (u->ends != u->incarnation || u->running)
        viol("%s of u%d returned before the unit terminated (starts=%d ends=%d inc=%d running=%d)",
             what, u->id, u->starts, u->ends, u->incarnation, u->running);
}

static void op_join(actor *a, int ui)
{
    actor *u = &G.unit[ui];
    if (!u->named || !u->created || u->freed)
        generr("join of unjoinable unit %d", ui);
    if (!u->ends || u->ends != u->incarnation)
        stat_add("join_before_end", 1);
    int rc = u->utype == U_ULT ? ABT_thread_join(u->h) : ABT_task_join((ABT_task)u->h);
    CHECK_RC(rc, "ABT_thread_join");
    check_joined(a, u, "join");
    ABT_thread_state st;
    rc = ABT_thread_get_state(u->h, &st);
    CHECK_RC(rc, "ABT_thread_get_state");
    if (st != ABT_THREAD_STATE_TERMINATED)
        viol("state of u%d after join is %d, not TERMINATED", ui, (int)st);
    u->joined = 1;
    hist(a, "joined", ui, 0, 0);
}

static void op_free(actor *a, int ui)
{
    actor *u = &G.unit[ui];
    if (!u->named || !u->created || u->freed)
        generr("free of unfreeable unit %d", ui);
    if (u->ends != u->incarnation)
        stat_add("join_before_end", 1);
    /* from here on the descriptor may be handed out again (see check_new_handle) */
    __atomic_store_n(&u->freeing, 1, __ATOMIC_SEQ_CST);
    int rc = u->utype == U_ULT ? ABT_thread_free(&u->h) : ABT_task_free((ABT_task *)&u->h);
    CHECK_RC(rc, "ABT_thread_free");
    check_joined(a, u, "free");
    if (u->utype == U_ULT ? (u->h != ABT_THREAD_NULL) : ((ABT_task)u->h != ABT_TASK_NULL))
        viol("handle of u%d not set to NULL by free", ui);
    u->freed = 1;
    if (u->ustack) {
        free(u->ustack);
        u->ustack = NULL;
    }
    hist(a, "freed", ui, 0, 0);
}

static void wait_arm(void);
static void actor_wait_step(actor *a);
static void unit_point_before(actor *a, uint64_t *tick, int *must);
static void unit_point_after(actor *a, uint64_t tick, int must, const char *what);
static void actor_yield(actor *a)
{
    if (is_ult_actor(a)) {
        uint64_t t;
        int must;
        unit_point_before(a, &t, &must);
        int rc = ABT_thread_yield();
        CHECK_RC(rc, "ABT_thread_yield");
        unit_point_after(a, t, must, "yield");
    } else if (a->kind == A_EXT) {
        if (ds_active())
            ds_point();
        else
            sched_yield();
    }
}

static void op_fwait(actor *a, int k)
{
    if (a->kind == A_UNIT && a->utype == U_TASK)
        generr("tasklet cannot wait for a flag");
    wait_arm();
    while (!G.flag[k])
        actor_wait_step(a);
}
static void op_fset(actor *a, int k)
{
    (void)a;
    G.flag[k] = 1;
    if (ds_active())
        ds_touch();
}

/* ------------------------------------------------------------------ */
/* C04: mutex                                                          */
/* bookkeeping is atomic so that it is also exact under real parallelism */
static actor *m_holder[MAXO];
static int m_depth[MAXO];
static int m_inflight[MAXO];
static unsigned m_activity[MAXO];
#define AINC(x) __atomic_add_fetch(&(x), 1, __ATOMIC_SEQ_CST)
#define ADEC(x) __atomic_sub_fetch(&(x), 1, __ATOMIC_SEQ_CST)
#define ALOAD(x) __atomic_load_n(&(x), __ATOMIC_SEQ_CST)
#define ASTORE(x, v) __atomic_store_n(&(x), (v), __ATOMIC_SEQ_CST)

static int m_recursive(int m)
{
    return G.mutex_kind[m] == 1 || G.mutex_kind[m] == 3;
}
static void m_acquired(actor *a, int m, const char *what)
{
    char n1[16], n2[16];
    actor *h = ALOAD(m_holder[m]);
    if (h == NULL) {
        m_depth[m] = 1;
        ASTORE(m_holder[m], a);
    } else if (h == a && m_recursive(m)) {
        m_depth[m]++;
        stat_add("recursive_relock", 1);
    } else {
        viol("mutual exclusion broken: %s got mutex %d via %s while %s holds it",
             actor_name(a, n1), m, what, actor_name(h, n2));
    }
}
static void op_lock(actor *a, int m, int variant)
{
    actor *h0 = ALOAD(m_holder[m]);
    int contended = (h0 != NULL && h0 != a);
    if (a->depth[m]++ == 0)
        AINC(m_inflight[m]);
    AINC(m_activity[m]);
    int rc;
    const char *what;
    switch (variant) {
        case 1:
            rc = ABT_mutex_lock_low(G.mutex[m]);
            what = "lock_low";
            break;
        case 2:
            rc = ABT_mutex_lock_high(G.mutex[m]);
            what = "lock_high";
            break;
        case 3:
            rc = ABT_mutex_spinlock(G.mutex[m]);
            what = "spinlock";
            break;
        default:
            rc = ABT_mutex_lock(G.mutex[m]);
            what = "lock";
    }
    CHECK_RC(rc, what);
    m_acquired(a, m, what);
    if (contended)
        stat_add("contended_lock", 1);
    stat_add("locks", 1);
}
static void op_trylock(actor *a, int m)
{
    /* order matters under real parallelism: activity first, then in-flight */
    unsigned act0 = ALOAD(m_activity[m]);
    int others = ALOAD(m_inflight[m]) - (a->depth[m] > 0 ? 1 : 0);
    if (a->depth[m]++ == 0)
        AINC(m_inflight[m]);
    AINC(m_activity[m]);
    int rc = ABT_mutex_trylock(G.mutex[m]);
    if (rc == ABT_SUCCESS) {
        m_acquired(a, m, "trylock");
        stat_add("trylock_ok", 1);
    } else if (rc == ABT_ERR_MUTEX_LOCKED) {
        if (--a->depth[m] == 0)
            ADEC(m_inflight[m]);
        a->skip_mutex = m;
        a->skip_depth = 0;
        if (others == 0 && ALOAD(m_activity[m]) == act0 + 1)
            viol("trylock on mutex %d failed although nobody held or was acquiring it", m);
        stat_add("trylock_busy", 1);
    } else {
        viol("trylock returned %d", rc);
    }
}
static void op_unlock(actor *a, int m, int variant)
{
    if (ALOAD(m_holder[m]) != a)
        generr("unlock of mutex %d by a non-holder", m);
    if (--m_depth[m] == 0)
        ASTORE(m_holder[m], NULL);
    int rc = variant == 1 ? ABT_mutex_unlock_se(G.mutex[m])
                          : variant == 2 ? ABT_mutex_unlock_de(G.mutex[m])
                                         : ABT_mutex_unlock(G.mutex[m]);
    CHECK_RC(rc, "unlock");
    if (--a->depth[m] == 0)
        ADEC(m_inflight[m]);
}

#include "ops_sync.h"
#include "ops_unit.h"
#include "ops_switch.h"
#include "ops_key.h"
#include "ops_pool.h"

/* ------------------------------------------------------------------ */
static void exec_op(actor *a, op_t *o)
{
    int a0 = (int)o->a[0], a1 = (int)o->a[1];
    switch (o->code) {
        case OP_awaitvar:
            op_awaitvar(a, a0, o->a[1]);
            break;
        case OP_varadd:
            var_add(a0, o->a[1]);
            break;
        case OP_awaitvar_t:
            op_awaitvar_t(a, a0, o->a[1], o->a[2]);
            break;
        case OP_advance:
            if (ds_active())
                ds_advance((uint64_t)o->a[0] * 1000ull);
            break;
        case OP_cwait:
            op_cwait(a, a0, a1, 0, 0);
            break;
        case OP_ctimedwait:
            op_cwait(a, a0, a1, 1, o->a[2]);
            break;
        case OP_cwait_rej:
            op_cwait_rej(a, a0, a1);
            break;
        case OP_csignal:
            op_csignal(a, a0, a1, 0);
            break;
        case OP_cbroadcast:
            op_csignal(a, a0, a1, 1);
            break;
        case OP_csigloop:
            op_csigloop(a, a0, a1, o->a[2], o->a[3]);
            break;
        case OP_bwait:
            op_bwait(a, a0);
            break;
        case OP_bwait_rej:
            op_bwait_rej(a, a0);
            break;
        case OP_breinit:
            op_breinit(a, a0, a1);
            break;
        case OP_evset:
            op_evset(a, a0, a1);
            break;
        case OP_evwait:
            op_evwait(a, a0);
            break;
        case OP_evwait_rej:
            op_evwait_rej(a, a0);
            break;
        case OP_evtest:
            op_evtest(a, a0);
            break;
        case OP_evreset:
            op_evreset(a, a0);
            break;
        case OP_fuset:
            op_fuset(a, a0, a1);
            break;
        case OP_fuwait:
            op_fuwait(a, a0);
            break;
        case OP_fuwait_rej:
            op_fuwait_rej(a, a0);
            break;
        case OP_futest:
            op_futest(a, a0);
            break;
        case OP_fureset:
            op_fureset(a, a0);
            break;
        case OP_rdlock:
            op_rdlock(a, a0);
            break;
        case OP_wrlock:
            op_wrlock(a, a0);
            break;
        case OP_rwunlock:
            op_rwunlock(a, a0);
            break;
        case OP_rdlockn:
            op_rdlockn(a, a0, a1);
            break;
        case OP_rwunlockn:
            op_rwunlockn(a, a0, a1);
            break;
        case OP_rdlock_rej:
            op_rwlock_rej(a, a0, 0);
            break;
        case OP_wrlock_rej:
            op_rwlock_rej(a, a0, 1);
            break;
        case OP_nop:
            break;
        case OP_create:
            op_create_ex(a, a0, 0, 0);
            break;
        case OP_createto:
            op_create_ex(a, a0, 1, 0);
            break;
        case OP_createon:
            op_create_ex(a, a0, 2, a1);
            break;
        case OP_createmany:
            op_create_many(a, o);
            break;
        case OP_revive:
            op_revive(a, a0, a1, 0);
            break;
        case OP_reviveto:
            op_revive(a, a0, a1, 1);
            break;
        case OP_joinmany:
            op_join_many(a, o, 0);
            break;
        case OP_freemany:
            op_join_many(a, o, 1);
            break;
        case OP_payload:
            op_payload(a, o->a[0]);
            break;
        case OP_chkpayload:
            op_chkpayload(a, a0, o->a[1]);
            break;
        case OP_exit:
            op_exit(a, 0);
            break;
        case OP_selfexit:
            op_exit(a, 1);
            break;
        case OP_cancel:
            op_cancel(a, a0);
            break;
        case OP_xsjoin:
            op_xsjoin(a, a0, 0);
            break;
        case OP_xsfree:
            op_xsjoin(a, a0, 1);
            break;
        case OP_poolcheck:
            op_poolcheck(a);
            break;
        case OP_addsched:
            op_addsched(a, a0, a1);
            break;
        case OP_susp:
            op_susp(a);
            break;
        case OP_resume:
            op_resume(a, a0);
            break;
        case OP_sample:
            op_sample(a, a0);
            break;
        case OP_selfstate:
            op_selfstate(a);
            break;
        case OP_expectstate:
            op_expectstate(a, a0, a1);
            break;
        case OP_popyt:
            op_switch(a, 0, a0, a1 == -1 && o->a[2] == -1 ? -2 : a1);
            break;
        case OP_tyt:
            op_switch(a, 1, a0, -2);
            break;
        case OP_popsusp:
            op_switch(a, 2, a0, a1 == -1 && o->a[2] == -1 ? -2 : a1);
            break;
        case OP_ryt:
            op_switch(a, 3, a0, -2);
            break;
        case OP_rst:
            op_switch(a, 4, a0, -2);
            break;
        case OP_popexit:
            op_switch(a, 5, a0, a1 == -1 && o->a[2] == -1 ? -2 : a1);
            break;
        case OP_rexit:
            op_switch(a, 6, a0, -2);
            break;
        case OP_presume:
            op_plain_resume(a, a0);
            break;
        case OP_migpool:
            op_mig(a, a0, 0, a1);
            break;
        case OP_migsched:
            op_mig(a, a0, 1, a1);
            break;
        case OP_migxs:
            op_mig(a, a0, 2, a1);
            break;
        case OP_migrate:
            op_mig(a, a0, 3, 0);
            break;
        case OP_setcb:
            op_setcb(a, a0);
            break;
        case OP_keyset:
            op_kset(a, 0, a0, 0, a1 == 1);
            break;
        case OP_selfset:
            op_kset(a, 0, a0, 1, a1 == 1);
            break;
        case OP_tset:
            op_kset(a, a0, a1, 2, o->a[2] == 1);
            break;
        case OP_keyget:
            op_kget(a, 0, a0, 0);
            break;
        case OP_selfget:
            op_kget(a, 0, a0, 1);
            break;
        case OP_tget:
            op_kget(a, a0, a1, 2);
            break;
        case OP_ppush:
            op_ppush(a, a0, a1, (int)(o->a[2] < 0 ? 0 : o->a[2]), (int)(o->a[3] < 0 ? 0 : o->a[3]));
            break;
        case OP_ppushm:
            op_ppushm(a, o);
            break;
        case OP_ppop:
            op_ppop(a, a0, a1 < 0 ? 0 : a1, o->a[2] < 0 ? 0 : o->a[2]);
            break;
        case OP_ppopm:
            op_ppopm(a, a0, a1, (int)(o->a[2] < 0 ? 0 : o->a[2]));
            break;
        case OP_premove:
            op_premove(a, a0, a1);
            break;
        case OP_psize:
            op_psize(a, a0);
            break;
        case OP_uself:
            op_uself(a);
            break;
        case OP_stackuse:
            op_stackuse(a, o->a[0] < 0 ? 900 : o->a[0]);
            break;
        case OP_pmove:
            op_pmove(a, a0, a1, (int)o->a[2]);
            break;
        case OP_xscreate:
            op_xscreate(a, a0, a1, o->a[2] != 0, 0);
            break;
        case OP_xsbasic:
            op_xscreate(a, a0, -1, a1 != 0, 1);
            break;
        case OP_setrank:
            op_setrank(a, a0, a1);
            break;
        case OP_rankcheck:
            op_rankcheck(a, a0 != 0);
            break;
        case OP_xsrevive:
            op_xsrevive(a, a0);
            break;
        case OP_setmain:
            op_setmain(a, a0, a1);
            break;
        case OP_join:
            op_join(a, (int)o->a[0]);
            break;
        case OP_free:
            op_free(a, (int)o->a[0]);
            break;
        case OP_yield:
            actor_yield(a);
            break;
        case OP_yieldn:
            for (long i = 0; i < o->a[0]; i++)
                actor_yield(a);
            break;
        case OP_fset:
            op_fset(a, (int)o->a[0]);
            break;
        case OP_fwait:
            op_fwait(a, (int)o->a[0]);
            break;
        case OP_work:
            for (long i = 0; i < o->a[0]; i++)
                if (ds_active())
                    ds_point();
            break;
        case OP_lock:
            op_lock(a, (int)o->a[0], 0);
            break;
        case OP_lock_low:
            op_lock(a, (int)o->a[0], 1);
            break;
        case OP_lock_high:
            op_lock(a, (int)o->a[0], 2);
            break;
        case OP_spinlock:
            op_lock(a, (int)o->a[0], 3);
            break;
        case OP_trylock:
            op_trylock(a, (int)o->a[0]);
            break;
        case OP_unlock:
            op_unlock(a, (int)o->a[0], 0);
            break;
        case OP_unlock_se:
            op_unlock(a, (int)o->a[0], 1);
            break;
        case OP_unlock_de:
            op_unlock(a, (int)o->a[0], 2);
            break;
        default:
            generr("op %d not implemented", o->code);
    }
}

/* ------------------------------------------------------------------ */
/* set-up and tear-down                                                */
static const ABT_pool_kind pk_map[] = { ABT_POOL_FIFO, ABT_POOL_FIFO_WAIT, ABT_POOL_RANDWS };
static const ABT_pool_access pa_map[] = { ABT_POOL_ACCESS_PRIV, ABT_POOL_ACCESS_SPSC,
                                          ABT_POOL_ACCESS_MPSC, ABT_POOL_ACCESS_SPMC,
                                          ABT_POOL_ACCESS_MPMC };
static const ABT_sched_predef sp_map[] = { ABT_SCHED_DEFAULT, ABT_SCHED_BASIC,
                                           ABT_SCHED_BASIC_WAIT, ABT_SCHED_PRIO,
                                           ABT_SCHED_RANDWS };

#include "ops_user.h"

static void *ext_main(void *arg)
{
    actor *a = (actor *)arg;
    run_ops(a);
    ASTORE(a->ends, 1);
    if (ds_active())
        ds_touch();
    notify_done();
    return NULL;
}

static void setup_pools(void)
{
    int rc;
    int ondemand[MAXP] = { 0 };
    for (int i = 0; i < G.nxs; i++) {
        for (int k = 0; k < G.xs[i].npools; k++) {
            if (G.xs[i].late)
                ondemand[G.xs[i].pools[k]] |= 1;
            else {
                G.pool[G.xs[i].pools[k]].attached++;
                ondemand[G.xs[i].pools[k]] |= 2;
            }
        }
        for (int k = 0; k < G.xs[i].nalt; k++)
            ondemand[G.xs[i].alt[k]] |= 1;
    }
    for (int i = 0; i < G.nsub; i++)
        for (int k = 0; k < G.sub[i].npools; k++) {
            G.pool[G.sub[i].pools[k]].attached++;
            G.pool[G.sub[i].pools[k]].sub = i;
        }
    for (int i = 0; i < G.npool; i++) {
        vpool *p = &G.pool[i];
        if (G.nxs > 0 && G.xs[0].sched == 0 && G.xs[0].npools == 1 && G.xs[0].pools[0] == i) {
            /* the primary stream's own default main pool */
            rc = ABT_xstream_get_main_pools(G.xs[0].h, 1, &p->h);
            CHECK_RC(rc, "ABT_xstream_get_main_pools");
            continue;
        }
        if (ondemand[i] == 1)
            continue; /* created when a late stream / a new main scheduler needs it */
        if (p->kind <= 2) {
            rc = ABT_pool_create_basic(pk_map[p->kind], pa_map[p->access],
                                       p->attached ? ABT_TRUE : ABT_FALSE, &p->h);
            CHECK_RC(rc, "ABT_pool_create_basic");
        } else {
            create_user_pool(i);
        }
    }
}

static void make_sched(vxs *x)
{
    ABT_pool pools[MAXP];
    for (int k = 0; k < x->npools; k++)
        pools[k] = G.pool[x->pools[k]].h;
    if (x->sched >= 1 && x->sched <= 4) {
        int rc = ABT_sched_create_basic(sp_map[x->sched], x->npools, pools,
                                        ABT_SCHED_CONFIG_NULL, &x->sh);
        CHECK_RC(rc, "ABT_sched_create_basic");
    } else if (x->sched == 5) {
        make_user_sched(x, pools);
    } else {
        generr("sched kind %d not built yet", x->sched);
    }
}

static void create_xs(int i)
{
    vxs *x = &G.xs[i];
    make_sched(x);
    int rc = ABT_xstream_create(x->sh, &x->h);
    CHECK_RC(rc, "ABT_xstream_create");
    rc = ABT_xstream_get_rank(x->h, &x->rank);
    CHECK_RC(rc, "ABT_xstream_get_rank");
    x->created = 1;
}

static void op_addsched(actor *a, int p, int s)
{
    (void)a;
    vxs *x = &G.sub[s];
    if (x->created)
        generr("stacked scheduler %d added twice", s);
    make_sched(x);
    x->created = 1;
    __atomic_store_n(&x->host_pool, p + 1, __ATOMIC_SEQ_CST);
    int rc = ABT_pool_add_sched(G.pool[p].h, x->sh);
    CHECK_RC(rc, "ABT_pool_add_sched");
    stat_add("stacked_scheds", 1);
}

static void migr_callback(ABT_thread thread, void *cb_arg)
{
    actor *u = (actor *)cb_arg;
    if (u < &G.unit[0] || u >= &G.unit[MAXU])
        viol("migration callback got a foreign argument");
    if (u->named && ALOAD(u->h_valid) && thread != u->h)
        viol("migration callback of u%d got another thread handle", u->id);
    AINC(u->cb_count);
}

#include "ops_stream.h"

static void final_unit_checks(const char *when)
{
    for (int i = 0; i < G.nunit; i++) {
        actor *u = &G.unit[i];
        if (!u->created)
            continue;
        {
            struct migstate *m = mig_of(u);
            int accepted = 0;
            for (int k = 0; k < m->nstarted && k < MAXREQ; k++)
                if (m->returned[k] == 1)
                    accepted++;
            int cbs = ALOAD(u->cb_count);
            if (!u->has_cb && cbs)
                viol("u%d has no migration callback but %d callback(s) ran", i, cbs);
            if (u->has_cb && (cbs > accepted || cbs < m->observed_changes))
                viol("u%d: migration callback ran %d time(s) for %d accepted request(s) and %d observed pool change(s)",
                     i, cbs, accepted, m->observed_changes);
            if (accepted)
                stat_add("units_with_accepted_migration", 1);
        }
        if (u->cancelled) {
            if (u->ends > u->incarnation || u->starts > u->incarnation)
                viol("cancelled unit u%d ran too often", i);
            if (u->join_seen && u->pc_heap != u->pc_at_join)
                viol("cancelled unit u%d executed ops after its join/free had returned (pc %d -> %d)",
                     i, u->pc_at_join, u->pc_heap);
            continue;
        }
        if (u->starts != u->incarnation || u->ends != u->incarnation || u->running)
            viol("at %s: unit u%d (type %d named %d pool %d) created %d time(s) has starts=%d ends=%d running=%d",
                 when, i, u->utype, u->named, u->pool, u->incarnation, u->starts, u->ends,
                 u->running);
    }
}

static void run_program(void)
{
    int rc = ABT_init(0, NULL);
    CHECK_RC(rc, "ABT_init");
    if (G.nxs == 0) {
        G.nxs = 1;
        G.xs[0].sched = 0;
    }
    rc = ABT_xstream_self(&G.xs[0].h);
    CHECK_RC(rc, "ABT_xstream_self");
    rc = ABT_thread_self(&G.main_a.h);
    CHECK_RC(rc, "ABT_thread_self");
    G.main_a.migratable = 1;
    if (G.xs[0].sched == 0) {
        rc = ABT_xstream_get_main_sched(G.xs[0].h, &G.xs[0].sh);
        CHECK_RC(rc, "ABT_xstream_get_main_sched");
    }
    G.main_a.cur_pool = G.xs[0].npools ? G.xs[0].pools[0] : 0;
    G.xs[0].created = 1;
    G.xs[0].rank = 0;
    setup_pools();
    if (G.xs[0].sched != 0) {
        make_sched(&G.xs[0]);
        rc = ABT_xstream_set_main_sched(G.xs[0].h, G.xs[0].sh);
        CHECK_RC(rc, "ABT_xstream_set_main_sched");
    }
    /* synchronisation objects */
    for (int i = 0; i < G.nmutex; i++) {
        switch (G.mutex_kind[i]) {
            case 0:
                rc = ABT_mutex_create(&G.mutex[i]);
                CHECK_RC(rc, "ABT_mutex_create");
                break;
            case 1: {
                ABT_mutex_attr at;
                rc = ABT_mutex_attr_create(&at);
                CHECK_RC(rc, "ABT_mutex_attr_create");
                rc = ABT_mutex_attr_set_recursive(at, ABT_TRUE);
                CHECK_RC(rc, "ABT_mutex_attr_set_recursive");
                rc = ABT_mutex_create_with_attr(at, &G.mutex[i]);
                CHECK_RC(rc, "ABT_mutex_create_with_attr");
                ABT_mutex_attr_free(&at);
                break;
            }
            case 2: {
                ABT_mutex_memory init = ABT_MUTEX_INITIALIZER;
                G.mutex_mem[i] = init;
                G.mutex[i] = ABT_MUTEX_MEMORY_GET_HANDLE(&G.mutex_mem[i]);
                break;
            }
            case 3: {
                ABT_mutex_memory init = ABT_RECURSIVE_MUTEX_INITIALIZER;
                G.mutex_mem[i] = init;
                G.mutex[i] = ABT_MUTEX_MEMORY_GET_HANDLE(&G.mutex_mem[i]);
                break;
            }
        }
    }
    g_clock0 = ds_now();
    for (int i = 0; i < G.nkey; i++) {
        rc = ABT_key_create(G.key_dtor[i] ? key_dtor_common : NULL, &G.key[i]);
        CHECK_RC(rc, "ABT_key_create");
    }
    for (int i = 0; i < G.ncond; i++) {
        if (G.cond_kind[i] == 0) {
            rc = ABT_cond_create(&G.cond[i]);
            CHECK_RC(rc, "ABT_cond_create");
        } else {
            ABT_cond_memory init = ABT_COND_INITIALIZER;
            G.cond_mem[i] = init;
            G.cond[i] = ABT_COND_MEMORY_GET_HANDLE(&G.cond_mem[i]);
        }
    }
    for (int i = 0; i < G.nbarrier; i++) {
        rc = ABT_barrier_create((uint32_t)G.barrier_n[i], &G.barrier[i]);
        CHECK_RC(rc, "ABT_barrier_create");
        b_n[i] = G.barrier_n[i];
    }
    for (int i = 0; i < G.neventual; i++) {
        rc = ABT_eventual_create(G.ev_nbytes[i], &G.eventual[i]);
        CHECK_RC(rc, "ABT_eventual_create");
    }
    for (int i = 0; i < G.nfuture; i++) {
        rc = ABT_future_create((uint32_t)G.fut_n[i], G.fut_cb[i] ? fu_cbs[i] : NULL, &G.future[i]);
        CHECK_RC(rc, "ABT_future_create");
    }
    for (int i = 0; i < G.nrwlock; i++) {
        rc = ABT_rwlock_create(&G.rwlock[i]);
        CHECK_RC(rc, "ABT_rwlock_create");
    }
    for (int i = 1; i < G.nxs; i++)
        if (!G.xs[i].late)
            create_xs(i);
    for (int i = 0; i < G.next; i++)
        if (pthread_create(&G.ext[i].pth, NULL, ext_main, &G.ext[i]) != 0)
            generr("pthread_create failed");
    run_ops(&G.main_a);
    if (G.drain) {
        /* block (not poll) until every unit and external thread has finished:
         * synchronisation objects are freed below, and the primary stream must
         * keep scheduling meanwhile */
        main_wait_all_done();
    } else if (G.next) {
        g_wait_exts_only = 1;
        main_wait_all_done();
        g_wait_exts_only = 0;
    }
    for (int i = 0; i < G.next; i++)
        pthread_join(G.ext[i].pth, NULL);
    /* tear-down */
    for (int i = 1; i < G.nxs; i++) {
        vxs *x = &G.xs[i];
        if (x->created && !x->freed && !x->joined)
            op_xsjoin(&G.main_a, i, 0);
    }
    if (G.drain)
        check_pool_counts("after all units finished", 1);
    for (int i = 0; i < G.nunit; i++) {
        actor *u = &G.unit[i];
        if (u->created && u->named && !u->freed)
            op_free(&G.main_a, i);
    }
    for (int i = 1; i < G.nxs; i++) {
        vxs *x = &G.xs[i];
        if (x->created && !x->freed) {
            rc = ABT_xstream_free(&x->h);
            CHECK_RC(rc, "ABT_xstream_free");
            x->freed = 1;
        }
    }
    /* objects that units left for ABT_finalize may still use are not freed */
    if (G.drain || all_done()) {
    for (int i = 0; i < G.nmutex; i++) {
        if (m_holder[i])
            generr("mutex %d still held at the end", i);
        if (G.mutex_kind[i] <= 1) {
            rc = ABT_mutex_free(&G.mutex[i]);
            CHECK_RC(rc, "ABT_mutex_free");
        }
    }
    for (int i = 0; i < G.ncond; i++) {
        if (c_credits[i] != 0 && !c_racy[i])
            viol("cond %d: %d signal credit(s) were never consumed by a waiter", i, c_credits[i]);
        if (G.cond_kind[i] == 0) {
            rc = ABT_cond_free(&G.cond[i]);
            if (rc != ABT_SUCCESS)
                viol("ABT_cond_free returned %d (waiter list not empty?)", rc);
        }
    }
    for (int i = 0; i < G.nbarrier; i++) {
        rc = ABT_barrier_free(&G.barrier[i]);
        CHECK_RC(rc, "ABT_barrier_free");
    }
    for (int i = 0; i < G.neventual; i++) {
        ev_final_check(i);
        rc = ABT_eventual_free(&G.eventual[i]);
        CHECK_RC(rc, "ABT_eventual_free");
    }
    for (int i = 0; i < G.nfuture; i++) {
        fu_final_check(i);
        rc = ABT_future_free(&G.future[i]);
        CHECK_RC(rc, "ABT_future_free");
    }
    for (int i = 0; i < G.nrwlock; i++) {
        if (rw_readers[i] || rw_writers[i])
            generr("rwlock %d still held at the end", i);
        rc = ABT_rwlock_free(&G.rwlock[i]);
        CHECK_RC(rc, "ABT_rwlock_free");
    }
    }
    for (int i = 0; i < G.npool; i++)
        if (G.pool[i].h != ABT_POOL_NULL &&
            (!G.pool[i].attached ||
             (G.pool[i].sub >= 0 && !G.sub[G.pool[i].sub].created))) {
            rc = ABT_pool_free(&G.pool[i].h);
            CHECK_RC(rc, "ABT_pool_free");
        }
    for (int i = 0; i < G.nkey; i++) {
        rc = ABT_key_free(&G.key[i]);
        CHECK_RC(rc, "ABT_key_free");
    }
    rc = ABT_finalize();
    CHECK_RC(rc, "ABT_finalize");
    final_unit_checks("finalize");
    if (G.nkey)
        key_final_checks();
    user_final_checks();
}

static void run_special_mode(void)
{
    if (G.mode == 1) {
        /* C20 (d): three initialisations: setting A, setting B, nothing set */
        putenv("ABT_SET_AFFINITY=0");
        env_probe("A", g_envA[0] ? g_envA : NULL);
        env_probe("B", g_envB[0] ? g_envB : NULL);
        env_probe("C", NULL);
        return;
    }
    if (G.mode == 2) {
        mp_run();
        return;
    }
    if (G.mode == 3) {
        ft_run();
        return;
    }
    generr("mode %d not built", G.mode);
}
