/* ops_user.h: user-defined pools (new ABT_pool_user_def and legacy ABT_pool_def
 * forms) and a user-defined scheduler, with a complete call log and a call
 * automaton per unit handle (C14).  Included by ops.h before the set-up code. */

#define MAXSLOT 512
typedef struct {
    volatile int in_use, queued;
    ABT_thread thread;
    int pool;
    volatile int ever_pushed;
} uslot;
static uslot g_slot[MAXSLOT];
typedef struct {
    volatile int lock;
    int q[MAXSLOT], n; /* queued slots in push order */
    int policy, bucket, refuse_left, refuse_n;
    long creates, frees, pushes, pops;
} upool;
static upool g_up[MAXP];
static int g_max_bucket_live;

static void up_lock(upool *u)
{
    while (__atomic_exchange_n(&u->lock, 1, __ATOMIC_ACQUIRE)) {
        if (ds_active())
            ds_point();
    }
}
static void up_unlock(upool *u)
{
    __atomic_store_n(&u->lock, 0, __ATOMIC_RELEASE);
}
static int g_creating_pool = -1;
static int upool_index(ABT_pool pool)
{
    int p = pool_index(pool);
    if (p < 0 && g_creating_pool >= 0)
        p = g_creating_pool; /* callback from inside ABT_pool_create */
    if (p < 0 || G.pool[p].kind < 3)
        viol("user-pool callback invoked with a pool handle that is not a user pool");
    return p;
}
/* handles of one pool collide in one bucket of the library's 256-entry
 * unit->thread table: bucket(v) = (v>>3) + (v>>11) + (v>>19) mod 256 */
static ABT_unit slot_handle(int s)
{
    return (ABT_unit)(uintptr_t)(((uintptr_t)s + 1) << 3);
}
static int handle_slot(ABT_unit u)
{
    uintptr_t v = (uintptr_t)u;
    if (v == 0 || (v & 7) || (v >> 3) > MAXSLOT)
        return -1;
    return (int)(v >> 3) - 1;
}
static int alloc_slot(int p)
{
    /* slots of pool p: bucket + 255*m keeps them in one hash bucket */
    upool *u = &g_up[p];
    static volatile int glock;
    while (__atomic_exchange_n(&glock, 1, __ATOMIC_ACQUIRE))
        if (ds_active())
            ds_point();
    int found = -1;
    for (int m = 0; m < 2 && found < 0; m++) {
        /* first try the colliding positions, then anything */
        for (int s = 0; s < MAXSLOT; s++) {
            int collide = ((s + 1) % 255) == (u->bucket % 255);
            if (m == 0 && !collide)
                continue;
            if (!g_slot[s].in_use) {
                found = s;
                break;
            }
        }
    }
    if (found >= 0)
        g_slot[found].in_use = 1;
    int live = 0;
    for (int s = 0; s < MAXSLOT; s++)
        if (g_slot[s].in_use && ((s + 1) % 255) == (u->bucket % 255))
            live++;
    if (live > g_max_bucket_live)
        g_max_bucket_live = live;
    __atomic_store_n(&glock, 0, __ATOMIC_RELEASE);
    if (found < 0)
        generr("out of unit slots");
    return found;
}
static ABT_unit up_create_unit_impl(int p, ABT_thread thread)
{
    upool *u = &g_up[p];
    int s = alloc_slot(p);
    g_slot[s].thread = thread;
    g_slot[s].pool = p;
    g_slot[s].queued = 0;
    g_slot[s].ever_pushed = 0;
    __atomic_add_fetch(&u->creates, 1, __ATOMIC_SEQ_CST);
    stat_add("user_create_unit", 1);
    return slot_handle(s);
}
static void up_free_unit_impl(int p, ABT_unit unit)
{
    int s = handle_slot(unit);
    if (s < 0)
        viol("free_unit called with a handle the pool never created (%p)", (void *)unit);
    if (!g_slot[s].in_use)
        viol("free_unit called twice for unit handle %p (slot %d)", (void *)unit, s);
    if (g_slot[s].pool != p)
        viol("free_unit of pool %d called with a unit of pool %d", p, g_slot[s].pool);
    if (g_slot[s].queued)
        viol("free_unit called for a unit that is still queued in pool %d", p);
    g_slot[s].thread = ABT_THREAD_NULL;
    g_slot[s].in_use = 0;
    __atomic_add_fetch(&g_up[p].frees, 1, __ATOMIC_SEQ_CST);
    stat_add("user_free_unit", 1);
}
static void up_push_impl(int p, ABT_unit unit)
{
    upool *u = &g_up[p];
    int s = handle_slot(unit);
    if (s < 0 || !g_slot[s].in_use)
        viol("push called with a unit that is not live (%p) - used after free_unit?", (void *)unit);
    if (g_slot[s].pool != p)
        viol("pool %d was handed a unit created by pool %d", p, g_slot[s].pool);
    up_lock(u);
    if (g_slot[s].queued) {
        up_unlock(u);
        viol("unit %p pushed while it is already queued", (void *)unit);
    }
    g_slot[s].queued = 1;
    g_slot[s].ever_pushed = 1;
    u->q[u->n++] = s;
    u->pushes++;
    up_unlock(u);
    if (ds_active())
        ds_touch();
}
static int up_pop_slot(int p)
{
    upool *u = &g_up[p];
    up_lock(u);
    int s = -1;
    if (u->n > 0) {
        int at = 0;
        switch (u->policy) {
            case 1: /* LIFO */
                at = u->n - 1;
                break;
            case 2: /* the k-th element */
                at = (int)(u->pops % (unsigned)u->n);
                break;
            case 3: /* refuse m times, then pop */
                if (u->refuse_left > 0) {
                    u->refuse_left--;
                    at = -1;
                } else {
                    u->refuse_left = u->refuse_n;
                }
                break;
            default:
                at = 0;
        }
        if (at >= 0) {
            s = u->q[at];
            for (int i = at; i + 1 < u->n; i++)
                u->q[i] = u->q[i + 1];
            u->n--;
            g_slot[s].queued = 0;
            u->pops++;
        }
    }
    up_unlock(u);
    return s;
}
/* ---- new-style definition ------------------------------------------------- */
static ABT_unit nu_create_unit(ABT_pool pool, ABT_thread thread)
{
    return up_create_unit_impl(upool_index(pool), thread);
}
static void nu_free_unit(ABT_pool pool, ABT_unit unit)
{
    up_free_unit_impl(upool_index(pool), unit);
}
static ABT_bool nu_is_empty(ABT_pool pool)
{
    return g_up[upool_index(pool)].n == 0 ? ABT_TRUE : ABT_FALSE;
}
static ABT_thread nu_pop(ABT_pool pool, ABT_pool_context ctx)
{
    (void)ctx;
    int s = up_pop_slot(upool_index(pool));
    return s < 0 ? ABT_THREAD_NULL : g_slot[s].thread;
}
static void nu_push(ABT_pool pool, ABT_unit unit, ABT_pool_context ctx)
{
    (void)ctx;
    up_push_impl(upool_index(pool), unit);
}
static size_t nu_get_size(ABT_pool pool)
{
    return (size_t)g_up[upool_index(pool)].n;
}
static void nu_pop_many(ABT_pool pool, ABT_thread *threads, size_t max, size_t *num, ABT_pool_context ctx)
{
    (void)ctx;
    size_t k = 0;
    int p = upool_index(pool);
    while (k < max) {
        int s = up_pop_slot(p);
        if (s < 0)
            break;
        threads[k++] = g_slot[s].thread;
    }
    *num = k;
}
static void nu_push_many(ABT_pool pool, const ABT_unit *units, size_t num, ABT_pool_context ctx)
{
    (void)ctx;
    int p = upool_index(pool);
    for (size_t i = 0; i < num; i++)
        up_push_impl(p, units[i]);
}
/* ---- legacy definition: callbacks carry no pool, one trampoline set per pool -- */
#define LEGACY(k)                                                              \
    static ABT_unit lg_create_##k(ABT_thread t) { return up_create_unit_impl(k, t); } \
    static void lg_free_##k(ABT_unit *pu) { up_free_unit_impl(k, *pu); *pu = ABT_UNIT_NULL; }
LEGACY(0) LEGACY(1) LEGACY(2) LEGACY(3) LEGACY(4) LEGACY(5) LEGACY(6) LEGACY(7)
LEGACY(8) LEGACY(9) LEGACY(10) LEGACY(11) LEGACY(12) LEGACY(13) LEGACY(14) LEGACY(15)
static ABT_unit (*const lg_create[MAXP])(ABT_thread) = {
    lg_create_0, lg_create_1, lg_create_2, lg_create_3, lg_create_4, lg_create_5, lg_create_6,
    lg_create_7, lg_create_8, lg_create_9, lg_create_10, lg_create_11, lg_create_12,
    lg_create_13, lg_create_14, lg_create_15 };
static void (*const lg_free[MAXP])(ABT_unit *) = {
    lg_free_0, lg_free_1, lg_free_2, lg_free_3, lg_free_4, lg_free_5, lg_free_6, lg_free_7,
    lg_free_8, lg_free_9, lg_free_10, lg_free_11, lg_free_12, lg_free_13, lg_free_14, lg_free_15 };
static int lg_init(ABT_pool pool, ABT_pool_config cfg)
{
    (void)pool;
    (void)cfg;
    return ABT_SUCCESS;
}
static int lg_pfree(ABT_pool pool)
{
    (void)pool;
    return ABT_SUCCESS;
}
static size_t lg_get_size(ABT_pool pool)
{
    return (size_t)g_up[upool_index(pool)].n;
}
static void lg_push(ABT_pool pool, ABT_unit unit)
{
    up_push_impl(upool_index(pool), unit);
}
static ABT_unit lg_pop(ABT_pool pool)
{
    int s = up_pop_slot(upool_index(pool));
    return s < 0 ? ABT_UNIT_NULL : slot_handle(s);
}

static void create_user_pool(int i)
{
    vpool *p = &G.pool[i];
    upool *u = &g_up[i];
    memset(u, 0, sizeof(*u));
    u->policy = p->policy & 3;
    u->bucket = (p->policy >> 2) % 255;
    u->refuse_n = 1 + ((p->policy >> 10) & 3);
    int rc;
    g_creating_pool = i;
    if (p->kind == 3) {
        ABT_pool_user_def def;
        rc = ABT_pool_user_def_create(nu_create_unit, nu_free_unit, nu_is_empty, nu_pop, nu_push, &def);
        CHECK_RC(rc, "ABT_pool_user_def_create");
        if (p->policy & (1 << 12)) {
            rc = ABT_pool_user_def_set_get_size(def, nu_get_size);
            CHECK_RC(rc, "ABT_pool_user_def_set_get_size");
        }
        if (p->policy & (1 << 13)) {
            rc = ABT_pool_user_def_set_pop_many(def, nu_pop_many);
            CHECK_RC(rc, "ABT_pool_user_def_set_pop_many");
            rc = ABT_pool_user_def_set_push_many(def, nu_push_many);
            CHECK_RC(rc, "ABT_pool_user_def_set_push_many");
        }
        ABT_pool_config cfg;
        rc = ABT_pool_config_create(&cfg);
        CHECK_RC(rc, "ABT_pool_config_create");
        int autom = p->attached ? 1 : 0;
        rc = ABT_pool_config_set(cfg, ABT_pool_config_automatic.key, ABT_POOL_CONFIG_INT, &autom);
        CHECK_RC(rc, "ABT_pool_config_set");
        rc = ABT_pool_create(def, cfg, &p->h);
        CHECK_RC(rc, "ABT_pool_create");
        ABT_pool_config_free(&cfg);
        ABT_pool_user_def_free(&def);
    } else {
        ABT_pool_def def;
        memset(&def, 0, sizeof(def));
        def.access = pa_map[p->access];
        def.u_create_from_thread = lg_create[i];
        def.u_free = lg_free[i];
        def.p_init = lg_init;
        def.p_get_size = lg_get_size;
        def.p_push = lg_push;
        def.p_pop = lg_pop;
        def.p_free = lg_pfree;
        ABT_pool_config cfg;
        rc = ABT_pool_config_create(&cfg);
        CHECK_RC(rc, "ABT_pool_config_create");
        int autom = p->attached ? 1 : 0;
        rc = ABT_pool_config_set(cfg, ABT_pool_config_automatic.key, ABT_POOL_CONFIG_INT, &autom);
        CHECK_RC(rc, "ABT_pool_config_set");
        rc = ABT_pool_create((ABT_pool_user_def)&def, cfg, &p->h);
        CHECK_RC(rc, "ABT_pool_create (legacy)");
        ABT_pool_config_free(&cfg);
    }
    g_creating_pool = -1;
    stat_add("user_pools", 1);
}

/* a running unit checks the unit <-> work-unit translation of its own handle
 * while other streams create and destroy units around it */
static void op_uself(actor *a)
{
    ABT_thread self;
    int rc = ABT_self_get_thread(&self);
    CHECK_RC(rc, "ABT_self_get_thread");
    ABT_unit unit = ABT_UNIT_NULL;
    rc = ABT_thread_get_unit(self, &unit);
    CHECK_RC(rc, "ABT_thread_get_unit");
    ABT_thread back = ABT_THREAD_NULL;
    rc = ABT_unit_get_thread(unit, &back);
    CHECK_RC(rc, "ABT_unit_get_thread");
    if (back != self)
        viol("ABT_unit_get_thread(ABT_thread_get_unit(self)) is not self (unit %p)", (void *)unit);
    ABT_pool lp;
    rc = ABT_self_get_last_pool(&lp);
    CHECK_RC(rc, "ABT_self_get_last_pool");
    int p = pool_index(lp);
    if (p >= 0 && G.pool[p].kind >= 3) {
        int s = handle_slot(unit);
        if (s < 0 || !g_slot[s].in_use || g_slot[s].thread != self || g_slot[s].pool != p)
            viol("the unit of a running work unit (%p) is not the live unit its user pool %d created for it",
                 (void *)unit, p);
        stat_add("uself_user", 1);
    }
    (void)a;
    stat_add("uself", 1);
}
static void user_final_checks(void)
{
    for (int s = 0; s < MAXSLOT; s++)
        if (g_slot[s].in_use)
            viol("unit %p of user pool %d is still live after ABT_finalize (free_unit never called)",
                 (void *)slot_handle(s), g_slot[s].pool);
    for (int i = 0; i < G.npool; i++)
        if (G.pool[i].kind >= 3 && g_up[i].creates != g_up[i].frees)
            viol("user pool %d: %ld create_unit calls but %ld free_unit calls", i, g_up[i].creates,
                 g_up[i].frees);
    stat_max("max_live_units_in_one_bucket", g_max_bucket_live);
}

/* ---- user-defined scheduler ---------------------------------------------------- */
typedef struct {
    int order_seed;
} usched_data;
static int us_init(ABT_sched sched, ABT_sched_config config)
{
    (void)config;
    usched_data *d = calloc(1, sizeof(*d));
    return ABT_sched_set_data(sched, d);
}
static void us_run(ABT_sched sched)
{
    int n = 0;
    ABT_pool pools[MAXP];
    ABT_sched_get_num_pools(sched, &n);
    ABT_sched_get_pools(sched, n, 0, pools);
    unsigned it = 0;
    for (;;) {
        /* visit the pools in a rotating order */
        int ran = 0;
        for (int k = 0; k < n; k++) {
            ABT_pool pool = pools[(k + it) % (unsigned)n];
            ABT_thread t = ABT_THREAD_NULL;
            ABT_pool_pop_thread(pool, &t);
            if (t != ABT_THREAD_NULL) {
                ABT_self_schedule(t, ABT_POOL_NULL);
                ran = 1;
                break;
            }
        }
        it++;
        if (!ran || (it & 7) == 0) {
            ABT_bool stop = ABT_FALSE;
            ABT_xstream_check_events(sched);
            ABT_sched_has_to_stop(sched, &stop);
            if (stop == ABT_TRUE)
                break;
        }
    }
}
static int us_free(ABT_sched sched)
{
    void *d = NULL;
    ABT_sched_get_data(sched, &d);
    free(d);
    return ABT_SUCCESS;
}
static void make_user_sched(vxs *x, ABT_pool *pools)
{
    ABT_sched_def def = { .type = ABT_SCHED_TYPE_ULT, .init = us_init, .run = us_run,
                          .free = us_free, .get_migr_pool = NULL };
    ABT_sched_config cfg;
    int rc = ABT_sched_config_create(&cfg, ABT_sched_config_automatic, 1, ABT_sched_config_var_end);
    CHECK_RC(rc, "ABT_sched_config_create");
    rc = ABT_sched_create(&def, x->npools, pools, cfg, &x->sh);
    CHECK_RC(rc, "ABT_sched_create");
    ABT_sched_config_free(&cfg);
    stat_add("user_scheds", 1);
}
