/* ops_switch.h: suspend/resume, directed switches, state sampling (C11, C12)
 * and migration (C13).  Included by ops.h after ops_unit.h. */

static uint64_t g_tick_ctr;
static uint64_t now_tick(void)
{
    return __atomic_add_fetch(&g_tick_ctr, 1, __ATOMIC_SEQ_CST);
}

static actor *actor_of_handle(ABT_thread h)
{
    if (h == G.main_a.h)
        return &G.main_a;
    for (int i = 0; i < G.nunit; i++)
        if (G.unit[i].created && G.unit[i].named && !G.unit[i].freed && G.unit[i].h == h)
            return &G.unit[i];
    return NULL;
}

/* ---- migration observation (C13) ---------------------------------------- */
#define MAXREQ 24
static struct migstate {
    int npool[MAXREQ];          /* requested pool of accepted request k */
    volatile int returned[MAXREQ];   /* 0 in flight, 1 accepted, 2 rejected */
    volatile uint64_t t_start[MAXREQ], t_ret[MAXREQ];
    int settled[MAXREQ];             /* served, superseded or rejected */
    volatile int nstarted;      /* requests whose call has begun */
    int observed_changes;
} g_mig[MAXU + 1];
static struct migstate *mig_of(actor *u)
{
    return u->kind == A_MAIN ? &g_mig[MAXU] : &g_mig[u->id];
}

/* npool encodings: >=0 pool; -1 any pool of another stream; <=-2: any pool of stream -2-v */
static int mig_match(int code, int pi, int oldpool)
{
    if (code >= 0)
        return code == pi;
    if (code == -1)
        return pi != oldpool; /* ABT_thread_migrate: some pool of another stream */
    int xi = -2 - code;
    for (int q = 0; q < G.xs[xi].npools; q++)
        if (G.xs[xi].pools[q] == pi)
            return 1;
    return 0;
}
/* called by a unit before a scheduling point; returns a snapshot token */
static int mig_before_point(actor *a)
{
    (void)a;
    return 0;
}
/* called when the unit runs again after the scheduling point */
/* tp: tick at which the scheduling point began.  Requests whose call intervals
 * overlap are unordered.  The target that is in force when the point serves the
 * request flag was stored by a request f such that no request that had already
 * returned before tp started after f returned (such a request would have stored
 * later).  The pool the unit comes back from must be the target of such an f;
 * if no request had returned before tp, any pool is acceptable here. */
static void mig_after_point_t(actor *a, uint64_t tp)
{
    if (a->kind != A_UNIT && a->kind != A_MAIN)
        return;
    struct migstate *m = mig_of(a);
    ABT_pool lp = ABT_POOL_NULL;
    int rc = ABT_self_get_last_pool(&lp);
    CHECK_RC(rc, "ABT_self_get_last_pool");
    int pi = pool_index(lp);
    int n = ALOAD(m->nstarted);
    if (n > MAXREQ)
        n = MAXREQ;
    if (pi != a->cur_pool) {
        m->observed_changes++;
        stat_add("migrations_observed", 1);
    }
    int done = 0, ok = 0;
    char want[160];
    int w = 0;
    want[0] = 0;
    for (int f = 0; f < n; f++) {
        int rf = ALOAD(m->returned[f]);
        if (rf == 2)
            continue;
        uint64_t f_ret = rf == 1 ? ALOAD(m->t_ret[f]) : UINT64_MAX;
        if (rf == 1 && f_ret < tp)
            done = 1;
        int superseded = 0;
        for (int r = 0; r < n; r++) {
            if (r == f || ALOAD(m->returned[r]) != 1)
                continue;
            if (ALOAD(m->t_ret[r]) < tp && m->t_start[r] > f_ret)
                superseded = 1;
        }
        if (superseded)
            continue;
        if (m->npool[f] == -1 || mig_match(m->npool[f], pi, a->cur_pool))
            ok = 1;
        if (w < 120)
            w += sprintf(want + w, "%d ", m->npool[f]);
    }
    hist(a, "mig_obs", pi, done, ok);
    if (done && !ok && !ALOAD(g_bulk_moves))
        viol("migration: unit %s%d was scheduled again out of pool %d after an accepted request "
             "had returned; target(s) that can be in force: %s(-1: other stream, <-1: stream -2-x)",
             a->kind == A_MAIN ? "main" : "u", a->id, pi, want);
    a->cur_pool = pi;
    if (a->kind == A_UNIT)
        a->expect_pool = -1;
}
static void mig_after_point(actor *a, int must)
{
    (void)a;
    (void)must;
}

static void op_mig(actor *a, int ui, int how, int target)
{
    /* how: 0 to_pool(target pool), 1 to_sched(target xs), 2 to_xstream(target xs), 3 migrate() */
    actor *u = ui < 0 ? a : &G.unit[ui];
    struct migstate *m = mig_of(u);
    ABT_thread h = u->h;
    if (ui < 0) {
        /* the creator may not have stored the handle yet */
        int rcs = ABT_self_get_thread(&h);
        CHECK_RC(rcs, "ABT_self_get_thread");
    }
    int k = __atomic_fetch_add(&m->nstarted, 1, __ATOMIC_SEQ_CST);
    if (k < MAXREQ)
        m->t_start[k] = now_tick();
    int tpool = -1;
    if (how == 0)
        tpool = target;
    int pending = 0;
    for (int j = 0; j < k && j < MAXREQ; j++)
        if (ALOAD(m->returned[j]) != 2)
            pending = 1; /* some earlier request may have moved the unit */
    int cur = u->cur_pool;
    int rc;
    if (k >= MAXREQ)
        generr("too many migration requests");
    m->npool[k] = tpool;
    u->migr_pending = 1; /* before the call: the unit may be moved before it returns */
    switch (how) {
        case 0:
            rc = ABT_thread_migrate_to_pool(h, G.pool[target].h);
            break;
        case 1:
            rc = ABT_thread_migrate_to_sched(h, G.xs[target].sh);
            break;
        case 2:
            rc = ABT_thread_migrate_to_xstream(h, G.xs[target].h);
            break;
        default:
            rc = ABT_thread_migrate(h);
    }
    hist(a, "mig", ui, how * 100 + target, rc);
    if (!u->migratable) {
        ASTORE(m->returned[k], 2);
        if (rc != ABT_ERR_INV_THREAD)
            viol("migration request for a non-migratable unit returned %d, expected ABT_ERR_INV_THREAD", rc);
        stat_add("mig_rejected_nonmigratable", 1);
        return;
    }
    if (how == 0) {
        if (rc == ABT_ERR_MIGRATION_TARGET) {
            ASTORE(m->returned[k], 2);
            int maybe = (target == cur);
            /* overlapping requests of other actors may already have taken effect */
            int n2 = ALOAD(m->nstarted);
            for (int j = 0; j < n2 && j < MAXREQ; j++)
                if (j != k && ALOAD(m->returned[j]) != 2 &&
                    (m->npool[j] == target || m->npool[j] < 0))
                    maybe = 1;
            if (!maybe && !ALOAD(g_bulk_moves))
                viol("migrate_to_pool(%d) was rejected as the current pool, but the unit is in pool %d", target, cur);
            stat_add("mig_rejected_same_pool", 1);
            return;
        }
        if (rc == ABT_SUCCESS && target == cur && !pending && !ALOAD(g_bulk_moves)) {
            /* a request that started after this one (e.g. the unit's own) may have moved
             * the unit while this call was under way */
            int other = 0, n2 = ALOAD(m->nstarted);
            for (int j = 0; j < n2 && j < MAXREQ; j++)
                if (j != k && ALOAD(m->returned[j]) != 2)
                    other = 1;
            if (!other)
                viol("migrate_to_pool to the unit's current pool %d was accepted", cur);
        }
        CHECK_RC(rc, "ABT_thread_migrate_to_pool");
    } else if (how == 3) {
        if (rc != ABT_SUCCESS) {
            ASTORE(m->returned[k], 2);
            int others = 0;
            for (int x = 0; x < G.nxs; x++)
                if (G.xs[x].created && !G.xs[x].joined) {
                    int serves = 0;
                    for (int q = 0; q < G.xs[x].npools; q++)
                        if (G.xs[x].pools[q] == cur)
                            serves = 1;
                    if (!serves)
                        others++;
                }
            /* the routine also skips the stream the unit last ran on, which need
             * not be the one serving its pool: two candidates must remain */
            if (others > 1 && !pending)
                viol("ABT_thread_migrate returned %d although %d other running stream(s) not serving the unit's pool exist", rc, others);
            return;
        }
        m->npool[k] = -1; /* any pool of another stream */
    } else {
        if (rc != ABT_SUCCESS) {
            ASTORE(m->returned[k], 2);
            /* the scheduler picked the current pool: legal rejection */
            if (rc != ABT_ERR_MIGRATION_TARGET && rc != ABT_ERR_INV_XSTREAM && rc != ABT_ERR_MIGRATION_NA)
                viol("migrate_to_%s returned %d", how == 1 ? "sched" : "xstream", rc);
            stat_add("mig_rejected_other", 1);
            return;
        }
        /* documented: ABT_ERR_MIGRATION_TARGET if the unit is associated with any pool
         * of the target (main) scheduler */
        int other2 = 0, n3 = ALOAD(m->nstarted);
        for (int j = 0; j < n3 && j < MAXREQ; j++)
            if (j != k && ALOAD(m->returned[j]) != 2)
                other2 = 1;
        if (!pending && !other2 && !ALOAD(g_bulk_moves))
            for (int q = 0; q < G.xs[target].npools; q++)
                if (G.xs[target].pools[q] == cur)
                    viol("migrate_to_%s(stream %d) was accepted although the unit is associated "
                         "with pool %d, which belongs to that scheduler", how == 1 ? "sched" : "xstream",
                         target, cur);
        m->npool[k] = -2 - target; /* some pool of stream `target` */
    }
    ASTORE(m->t_ret[k], now_tick());
    ASTORE(m->returned[k], 1);
    u->migr_pending = 1;
    stat_add("mig_accepted", 1);
}
static void op_setcb(actor *a, int ui)
{
    (void)a;
    actor *u = &G.unit[ui];
    int rc = ABT_thread_set_callback(u->h, migr_callback, u);
    CHECK_RC(rc, "ABT_thread_set_callback");
    u->has_cb = 2;
}

/* ---- a scheduling point of the calling unit --------------------------------- */
static void unit_point_before(actor *a, uint64_t *tick, int *must)
{
    *tick = now_tick();
    *must = mig_before_point(a);
}
static void unit_point_after(actor *a, uint64_t tick, int must, const char *what)
{
    a->slices++;
    if (a->kind == A_UNIT && a->cancelled && a->cancel_ret_tick && tick > a->cancel_ret_tick)
        viol("u%d kept running after a scheduling point (%s) that began after ABT_thread_cancel had returned",
             a->id, what);
    (void)must;
    mig_after_point_t(a, tick);
}

/* ---- C11 (b): suspend / resume ------------------------------------------------ */
static void op_susp(actor *a)
{
    uint64_t t;
    int must;
    unit_point_before(a, &t, &must);
    AINC(a->suspends_called);
    ASTORE(a->suspended, 1);
    if (ds_active())
        ds_touch();
    hist(a, "susp_call", 0, 0, 0);
    int rc = ABT_self_suspend();
    CHECK_RC(rc, "ABT_self_suspend");
    ASTORE(a->suspended, 0);
    if (ALOAD(a->resumes_issued) < a->suspends_called)
        viol("suspended unit ran again without having been resumed (suspend #%d, resumes issued %d)",
             a->suspends_called, ALOAD(a->resumes_issued));
    a->suspends_returned++;
    hist(a, "susp_ret", 0, 0, 0);
    unit_point_after(a, t, must, "suspend");
    stat_add("suspends", 1);
}
/* resume round: wait until the target announced a suspend, then until its
 * BLOCKED state is observable, then resume it exactly once */
static void op_resume(actor *a, int ui)
{
    actor *u = &G.unit[ui];
    int round = u->resume_rounds_done + 1;
    wait_arm();
    while (ALOAD(u->suspends_called) < round) {
        if (u->ends == u->incarnation)
            generr("resume of a unit that never suspends");
        actor_wait_step(a);
    }
    int polls = 0;
    for (;;) {
        wait_arm();
        ABT_thread_state st;
        int rc = ABT_thread_get_state(u->h, &st);
        CHECK_RC(rc, "ABT_thread_get_state");
        if (st == ABT_THREAD_STATE_BLOCKED)
            break;
        if (st == ABT_THREAD_STATE_TERMINATED)
            viol("unit u%d is TERMINATED while it should be suspended", ui);
        polls++;
        actor_wait_step(a);
    }
    if (polls <= 1)
        stat_add("resume_right_after_blocked", 1);
    u->resume_rounds_done = round;
    AINC(u->resumes_issued);
    hist(a, "resume", ui, round, 0);
    int rc = ABT_thread_resume(u->h);
    CHECK_RC(rc, "ABT_thread_resume");
    stat_add("resumes", 1);
}

/* ---- C12: state sampling --------------------------------------------------------- */
static void op_sample(actor *a, int ui)
{
    actor *u = &G.unit[ui];
    if (!u->created || u->freed)
        return;
    if (ALOAD(u->reviving))
        return;
    int inc0 = u->incarnation;
    int ended_before = (u->ends == inc0);
    int started_before = (u->starts == inc0);
    /* only a TERMINATED observation that was complete before this call started orders
     * itself before this call's read (several samplers run concurrently) */
    int seen_term_before = (ALOAD(u->seen_terminated) == inc0);
    ABT_thread_state st;
    int rc = ABT_thread_get_state(u->h, &st);
    CHECK_RC(rc, "ABT_thread_get_state");
    if (u->incarnation != inc0 || ALOAD(u->reviving))
        return; /* revived meanwhile */
    if (st == ABT_THREAD_STATE_TERMINATED) {
        if (!(u->ends == inc0 || u->cancelled || u->exited))
            viol("u%d reported TERMINATED but has neither finished, exited nor been cancelled", ui);
        ASTORE(u->seen_terminated, inc0);
        stat_add("sample_terminated", 1);
    } else {
        if (seen_term_before)
            viol("u%d left TERMINATED (now %d) without a revive", ui, (int)st);
        if (ended_before && u->joined)
            viol("u%d reports state %d after it was joined", ui, (int)st);
        if (st == ABT_THREAD_STATE_BLOCKED) {
            if (!started_before && !u->starts)
                viol("u%d reports BLOCKED before it ever started", ui);
            stat_add("sample_blocked", 1);
        } else if (st == ABT_THREAD_STATE_READY) {
            stat_add("sample_ready", 1);
        } else {
            stat_add("sample_running", 1);
        }
    }
    hist(a, "sample", ui, (long)st, 0);
}
static void op_selfstate(actor *a)
{
    ABT_thread self;
    int rc = ABT_self_get_thread(&self);
    CHECK_RC(rc, "ABT_self_get_thread");
    ABT_thread_state st;
    rc = ABT_thread_get_state(self, &st);
    CHECK_RC(rc, "ABT_thread_get_state");
    if (st != ABT_THREAD_STATE_RUNNING)
        viol("a running unit (kind %d id %d) observes its own state as %d, not RUNNING", a->kind,
             a->id, (int)st);
}
static void op_expectstate(actor *a, int ui, int want)
{
    (void)a;
    actor *u = ui < 0 ? &G.main_a : &G.unit[ui];
    ABT_thread_state st;
    int rc = ABT_thread_get_state(u->h, &st);
    CHECK_RC(rc, "ABT_thread_get_state");
    if ((int)st != want)
        viol("state of %s%d is %d, the reference interpreter expects %d", ui < 0 ? "main" : "u",
             ui < 0 ? 0 : ui, (int)st, want);
}

/* ---- C11 (a): directed switches -------------------------------------------------------- */
static actor *pop_unit(actor *a, int p)
{
    (void)a;
    ABT_thread t = ABT_THREAD_NULL;
    int rc = ABT_pool_pop_thread(G.pool[p].h, &t);
    CHECK_RC(rc, "ABT_pool_pop_thread");
    if (t == ABT_THREAD_NULL)
        viol("ABT_pool_pop_thread on pool %d returned nothing; the reference interpreter expects a unit", p);
    actor *u = actor_of_handle(t);
    if (!u)
        viol("ABT_pool_pop_thread returned an unknown unit");
    return u;
}
static void expect_popped(actor *u, int want)
{
    int got = u->kind == A_MAIN ? -1 : u->id;
    if (want != -2 && got != want)
        viol("popped unit %d, the reference interpreter expects %d", got, want);
}
static void op_switch(actor *a, int kind, int arg, int want)
{
    /* kinds: 0 popyt(pool) 1 tyt(unit) 2 popsusp(pool) 3 ryt(unit) 4 rst(unit)
     *        5 popexit(pool) 6 rexit(unit) */
    uint64_t t;
    int must, rc = 0;
    actor *tar;
    unit_point_before(a, &t, &must);
    switch (kind) {
        case 0:
            tar = pop_unit(a, arg);
            expect_popped(tar, want);
            tar->directed = 1;
            rc = ABT_self_yield_to(tar->h);
            break;
        case 1:
            tar = arg < 0 ? &G.main_a : &G.unit[arg];
            tar->directed = 1;
            rc = ABT_thread_yield_to(tar->h);
            break;
        case 2:
            tar = pop_unit(a, arg);
            expect_popped(tar, want);
            tar->directed = 1;
            AINC(a->suspends_called);
            rc = ABT_self_suspend_to(tar->h);
            a->suspends_returned++;
            break;
        case 3:
            tar = arg < 0 ? &G.main_a : &G.unit[arg];
            AINC(tar->resumes_issued);
            rc = ABT_self_resume_yield_to(tar->h);
            break;
        case 4:
            tar = arg < 0 ? &G.main_a : &G.unit[arg];
            AINC(tar->resumes_issued);
            AINC(a->suspends_called);
            rc = ABT_self_resume_suspend_to(tar->h);
            a->suspends_returned++;
            break;
        case 5:
            tar = pop_unit(a, arg);
            expect_popped(tar, want);
            tar->directed = 1;
            a->pc_heap = a->nops;
            unit_finish_bookkeeping(a, "exit_to");
            ABT_self_exit_to(tar->h);
            viol("continued after ABT_self_exit_to");
            break;
        case 6:
            tar = arg < 0 ? &G.main_a : &G.unit[arg];
            AINC(tar->resumes_issued);
            a->pc_heap = a->nops;
            unit_finish_bookkeeping(a, "resume_exit_to");
            ABT_self_resume_exit_to(tar->h);
            viol("continued after ABT_self_resume_exit_to");
            break;
    }
    CHECK_RC(rc, "directed switch");
    if ((kind == 2 || kind == 4) && ALOAD(a->resumes_issued) < a->suspends_called)
        viol("unit blocked by a directed switch ran again without having been resumed");
    unit_point_after(a, t, must, "directed switch");
    stat_add("directed_switches", 1);
}
static void op_plain_resume(actor *a, int ui)
{
    (void)a;
    actor *u = ui < 0 ? &G.main_a : &G.unit[ui];
    AINC(u->resumes_issued);
    int rc = ABT_thread_resume(u->h);
    CHECK_RC(rc, "ABT_thread_resume");
}
