/* ops_unit.h: work-unit life cycle ops (C01, C03, C06, C11, C12, C13).
 * Included by ops.h after the basic create/join/free ops. */

/* ---- blocking "everything finished" wait of the primary ULT ---------- */
static int g_bulk_moves;
static ABT_eventual g_done_ev = ABT_EVENTUAL_NULL;
static int g_main_waiting;
static int g_wait_exts_only;
static int all_done(void)
{
    for (int i = 0; i < G.nunit && !g_wait_exts_only; i++) {
        actor *u = &G.unit[i];
        if (u->created && !u->cancelled && (u->ends != u->incarnation || u->running))
            return 0;
    }
    for (int i = 0; i < G.next; i++)
        if (!ALOAD(G.ext[i].ends))
            return 0;
    return 1;
}
static volatile int g_done_lock;
static void done_lock(void)
{
    /* the holder may be descheduled inside the library: spin through dsched */
    while (__atomic_exchange_n(&g_done_lock, 1, __ATOMIC_ACQUIRE)) {
        if (ds_active())
            ds_point();
        else
            sched_yield();
    }
}
static void notify_done(void)
{
    /* the caller has just stored its end record with a plain store: without a full fence
     * x86 may order the load below before that store becomes visible (store buffering),
     * and the primary ULT, which stores g_main_waiting and then loads the end records,
     * would miss the last unit for ever */
    __atomic_thread_fence(__ATOMIC_SEQ_CST);
    if (!ALOAD(g_main_waiting))
        return;
    done_lock();
    if (ALOAD(g_main_waiting) && all_done())
        (void)ABT_eventual_set(g_done_ev, NULL, 0); /* a second set fails harmlessly */
    __atomic_store_n(&g_done_lock, 0, __ATOMIC_RELEASE);
}
static void main_wait_all_done(void)
{
    /* blocking, never yield-polling: a polling primary ULT could starve the
     * lower-priority pools of its own scheduler for ever */
    int rc = ABT_eventual_create(0, &g_done_ev);
    CHECK_RC(rc, "ABT_eventual_create");
    ASTORE(g_main_waiting, 1);
    if (!all_done()) {
        rc = ABT_eventual_wait(g_done_ev, NULL);
        CHECK_RC(rc, "ABT_eventual_wait");
    }
    done_lock();
    ASTORE(g_main_waiting, 0);
    __atomic_store_n(&g_done_lock, 0, __ATOMIC_RELEASE);
    rc = ABT_eventual_free(&g_done_ev);
    CHECK_RC(rc, "ABT_eventual_free");
    if (!all_done())
        viol("harness eventual fired before every unit finished");
}

/* ---- which stream runs me, and does it serve my pool? ---------------- */
static int xs_of_rank(int rank)
{
    for (int i = 0; i < G.nxs; i++)
        if (G.xs[i].created && !G.xs[i].freed && G.xs[i].rank == rank)
            return i;
    return -1;
}
static int pool_index(ABT_pool p)
{
    for (int i = 0; i < G.npool; i++)
        if (G.pool[i].h == p)
            return i;
    return -1;
}
static void check_start_stream(actor *a)
{
    int rank = -1;
    int rc = ABT_self_get_xstream_rank(&rank);
    CHECK_RC(rc, "ABT_self_get_xstream_rank");
    a->xs_rank_at_start = rank;
    ABT_pool lp = ABT_POOL_NULL;
    rc = ABT_self_get_last_pool(&lp);
    CHECK_RC(rc, "ABT_self_get_last_pool");
    int pi = pool_index(lp);
    if (pi < 0)
        viol("unit u%d started with an unknown last pool", a->id);
    if (a->directed) {
        /* started by a directed switch: runs on the switching stream */
        a->directed = 0;
        return;
    }
    if (a->expect_pool >= 0 && !a->migr_pending && !ALOAD(g_bulk_moves) && pi != a->expect_pool)
        viol("unit u%d was pushed to pool %d but started out of pool %d", a->id,
             a->expect_pool, pi);
    if (G.pool[pi].sub >= 0)
        return; /* pool of a stacked scheduler: runs wherever that scheduler runs */
    int xi = xs_of_rank(rank);
    if (xi < 0)
        return;
    int ok = 0;
    for (int k = 0; k < G.xs[xi].npools; k++)
        if (G.xs[xi].pools[k] == pi)
            ok = 1;
    if (!ok && !G.xs[xi].sched_changed)
        viol("unit u%d (pool %d) was started by stream %d, whose scheduler does not serve that pool",
             a->id, pi, xi);
}

/* ---- create variants -------------------------------------------------- */
static void check_new_handle(actor *u)
{
    for (int i = 0; i < G.nunit; i++) {
        actor *o = &G.unit[i];
        if (o != u && o->created && o->named && !o->freed && !ALOAD(o->freeing) && ALOAD(o->h_valid) &&
            o->h == u->h)
            viol("new unit u%d got the handle of live unit u%d", u->id, o->id);
    }
}
static ABT_thread_attr make_attr(actor *u)
{
    ABT_thread_attr attr = ABT_THREAD_ATTR_NULL;
    int rc;
    if (u->stackkind || !u->migratable || u->has_cb) {
        rc = ABT_thread_attr_create(&attr);
        CHECK_RC(rc, "ABT_thread_attr_create");
        if (u->stackkind == 1) {
            rc = ABT_thread_attr_set_stacksize(attr, (size_t)u->stacksize);
            CHECK_RC(rc, "ABT_thread_attr_set_stacksize");
        } else if (u->stackkind == 2) {
            u->ustack = malloc((size_t)u->stacksize + (size_t)u->stackoff + 64);
            rc = ABT_thread_attr_set_stack(attr, (char *)u->ustack + u->stackoff,
                                           (size_t)u->stacksize);
            CHECK_RC(rc, "ABT_thread_attr_set_stack");
        }
        if (!u->migratable) {
            rc = ABT_thread_attr_set_migratable(attr, ABT_FALSE);
            CHECK_RC(rc, "ABT_thread_attr_set_migratable");
        }
        if (u->has_cb == 1) {
            rc = ABT_thread_attr_set_callback(attr, migr_callback, u);
            CHECK_RC(rc, "ABT_thread_attr_set_callback");
        }
    }
    return attr;
}
static void op_create_ex(actor *a, int ui, int how, int xsi)
{
    /* how: 0 create, 1 create_to, 2 create_on_xstream */
    actor *u = &G.unit[ui];
    if (u->created)
        generr("unit %d created twice", ui);
    void *arg = next_uarg(u);
    void (*fn)(void *) = u->alt_fn ? unit_fn1_shim : unit_fn0_shim;
    ABT_pool pool = G.pool[u->pool].h;
    u->expect_pool = u->pool;
    int rc;
    if (how == 2) {
        u->expect_pool = G.xs[xsi].pools[0];
        u->pool = u->expect_pool;
    }
    u->created = 1;
    u->cur_pool = u->expect_pool;
    if (u->utype == U_ULT) {
        ABT_thread_attr attr = make_attr(u);
        if (how == 1) {
            u->directed = 1;
            stat_add("create_to", 1);
            rc = ABT_thread_create_to(pool, fn, arg, attr, u->named ? &u->h : NULL);
        } else if (how == 2) {
            rc = ABT_thread_create_on_xstream(G.xs[xsi].h, fn, arg, attr,
                                              u->named ? &u->h : NULL);
        } else {
            rc = ABT_thread_create(pool, fn, arg, attr, u->named ? &u->h : NULL);
        }
        CHECK_RC(rc, "ABT_thread_create*");
        if (attr != ABT_THREAD_ATTR_NULL)
            ABT_thread_attr_free(&attr);
    } else {
        if (how == 2)
            rc = ABT_task_create_on_xstream(G.xs[xsi].h, fn, arg,
                                            u->named ? (ABT_task *)&u->h : NULL);
        else
            rc = ABT_task_create(pool, fn, arg, u->named ? (ABT_task *)&u->h : NULL);
        CHECK_RC(rc, "ABT_task_create*");
    }
    if (u->named)
        ASTORE(u->h_valid, 1);
    if (u->named && !(how == 1 && u->freed))
        check_new_handle(u);
    hist(a, "created", ui, how, 0);
}
/* ABT_thread_create_many: up to 4 default-attribute ULTs, all named or all unnamed,
 * each with its own pool, function and argument (C01: "created ... with the argument it
 * was given") */
static void op_create_many(actor *a, op_t *o)
{
    ABT_pool pools[4];
    void (*fns[4])(void *);
    void *args[4];
    ABT_thread hs[4];
    actor *us[4];
    int n = 0, named = -1;
    for (int k = 0; k < 4; k++) {
        if (o->a[k] < 0)
            break;
        actor *u = &G.unit[o->a[k]];
        if (u->created)
            generr("unit %d created twice", (int)o->a[k]);
        if (u->utype != U_ULT || u->stackkind || !u->migratable || u->has_cb == 1)
            generr("create_many needs default-attribute ULTs");
        if (named >= 0 && named != !!u->named)
            generr("create_many needs all named or all unnamed");
        named = !!u->named;
        us[n] = u;
        pools[n] = G.pool[u->pool].h;
        fns[n] = u->alt_fn ? unit_fn1_shim : unit_fn0_shim;
        args[n] = next_uarg(u);
        u->expect_pool = u->pool;
        u->cur_pool = u->pool;
        u->created = 1;
        hs[n] = ABT_THREAD_NULL;
        n++;
    }
    if (!n)
        generr("empty create_many");
    int rc = ABT_thread_create_many(n, pools, fns, args, ABT_THREAD_ATTR_NULL,
                                    named ? hs : NULL);
    CHECK_RC(rc, "ABT_thread_create_many");
    for (int k = 0; k < n; k++) {
        actor *u = us[k];
        if (named) {
            if (hs[k] == ABT_THREAD_NULL)
                viol("create_many returned a null handle for u%d", u->id);
            for (int j = 0; j < k; j++)
                if (hs[j] == hs[k])
                    viol("create_many returned the same handle for u%d and u%d", us[j]->id, u->id);
            u->h = hs[k];
            ASTORE(u->h_valid, 1);
            check_new_handle(u);
        }
        hist(a, "created", u->id, 3, 0);
    }
    stat_add("create_many", 1);
    stat_add("create_many_units", n);
}
static void op_revive(actor *a, int ui, int pool, int to)
{
    actor *u = &G.unit[ui];
    if (!u->created || !u->named || u->freed || !u->joined)
        generr("revive of a unit that was not joined");
    ASTORE(u->reviving, 1);
    /* the previous incarnation is over (joined): a cancelled one may never have
     * started or ended, so re-base the counters */
    u->starts = u->ends = u->incarnation;
    u->running = 0;
    u->alt_fn = !u->alt_fn;
    u->joined = 0;
    u->cancelled = 0;
    u->exited = 0;
    u->join_seen = 0;
    u->cancel_ret_tick = 0;
    u->pool = pool;
    u->expect_pool = pool;
    u->cur_pool = pool;
    void *arg = next_uarg(u);
    void (*fn)(void *) = u->alt_fn ? unit_fn1_shim : unit_fn0_shim;
    int rc;
    ABT_thread before = u->h;
    if (u->utype == U_ULT) {
        if (to) {
            u->directed = 1;
            rc = ABT_thread_revive_to(G.pool[pool].h, fn, arg, &u->h);
        } else {
            rc = ABT_thread_revive(G.pool[pool].h, fn, arg, &u->h);
        }
    } else {
        rc = ABT_task_revive(G.pool[pool].h, fn, arg, (ABT_task *)&u->h);
    }
    CHECK_RC(rc, "ABT_thread_revive");
    ASTORE(u->reviving, 0);
    if (u->h != before)
        viol("revive changed the handle of u%d", ui);
    stat_add("revives", 1);
    hist(a, "revived", ui, pool, 0);
}
static void op_join_many(actor *a, op_t *o, int free_them)
{
    ABT_thread hs[4];
    int n = 0;
    for (int k = 0; k < 4; k++) {
        if (o->a[k] < 0)
            break;
        actor *u = &G.unit[o->a[k]];
        if (!u->named || !u->created || u->freed || u->utype != U_ULT)
            generr("join_many of unjoinable unit");
        if (u->ends != u->incarnation)
            stat_add("join_before_end", 1);
        hs[n++] = u->h;
        if (free_them)
            ASTORE(u->freeing, 1);
    }
    int rc = free_them ? ABT_thread_free_many(n, hs) : ABT_thread_join_many(n, hs);
    CHECK_RC(rc, "ABT_thread_join_many/free_many");
    for (int k = 0; k < n; k++) {
        actor *u = &G.unit[o->a[k]];
        check_joined(a, u, free_them ? "free_many" : "join_many");
        if (free_them) {
            if (hs[k] != ABT_THREAD_NULL)
                viol("free_many did not reset handle %d", k);
            u->h = ABT_THREAD_NULL;
            u->freed = 1;
            if (u->ustack) {
                free(u->ustack);
                u->ustack = NULL;
            }
        } else {
            u->joined = 1;
        }
    }
    stat_add("join_many", 1);
}

/* ---- C03 payload ------------------------------------------------------- */
static void op_payload(actor *a, long v)
{
    for (int i = 0; i < 8; i++)
        a->payload[i] = (uint64_t)v * 0x9e3779b97f4a7c15ull + (uint64_t)i;
}
static void op_chkpayload(actor *a, int ui, long v)
{
    (void)a;
    actor *u = &G.unit[ui];
    for (int i = 0; i < 8; i++)
        if (u->payload[i] != (uint64_t)v * 0x9e3779b97f4a7c15ull + (uint64_t)i)
            viol("payload written by u%d before it terminated is not visible to its joiner", ui);
}

static uint64_t now_tick(void);
/* ---- exit / cancel -------------------------------------------------------- */
static void unit_finish_bookkeeping(actor *a, const char *how)
{
    hist(a, how, a->incarnation, 0, 0);
    a->end_step = now_step();
    a->exited = 1;
    a->running = 0;
    a->ends++;
    notify_done();
}
static void op_exit(actor *a, int self)
{
    if (a->kind != A_UNIT || a->utype != U_ULT)
        generr("exit by a non-ULT");
    a->pc_heap = a->nops; /* nothing may run after the exit */
    unit_finish_bookkeeping(a, "exit");
    stat_add("exits", 1);
    if (self) {
        stat_add("self_exits", 1);
        ABT_self_exit();
    } else {
        ABT_thread_exit();
    }
    viol("u%d continued after ABT_thread_exit/ABT_self_exit", a->id);
}
static void op_cancel(actor *a, int ui)
{
    actor *u = &G.unit[ui];
    if (!u->created || u->freed)
        generr("cancel of a dead handle");
    int was_done = (u->ends == u->incarnation);
    u->cancel_step = now_step();
    if (!was_done)
        u->cancelled = 1;
    int rc = u->utype == U_ULT ? ABT_thread_cancel(u->h) : ABT_task_cancel((ABT_task)u->h);
    CHECK_RC(rc, "ABT_thread_cancel");
    u->cancel_ret_step = now_step();
    u->cancel_ret_tick = now_tick();
    stat_add(was_done ? "cancel_after_end" : "cancels", 1);
    if (u->running)
        stat_add("cancel_while_running", 1);
    hist(a, "cancel", ui, was_done, 0);
}

/* ---- explicit stream join / free (C06, C17) --------------------------------- */
static void units_of_stream_must_be_done(int xi, const char *what)
{
    /* every unit whose pool is served only by stream xi */
    for (int i = 0; i < G.nunit; i++) {
        actor *u = &G.unit[i];
        if (!u->created || u->cancelled || u->cur_pool < 0)
            continue;
        if (u->migr_pending)
            continue; /* may have been moved to another stream's pool meanwhile */
        int p = u->cur_pool, only = 1, served = 0;
        if (G.pool[p].sub >= 0) {
            /* pool of a stacked scheduler: that scheduler is itself a unit of the pool
             * it was added to, and it runs until its own pools are empty */
            int hp = __atomic_load_n(&G.sub[G.pool[p].sub].host_pool, __ATOMIC_SEQ_CST);
            if (hp == 0 || G.pool[hp - 1].sub >= 0)
                continue;
            p = hp - 1;
        }
        for (int x = 0; x < G.nxs; x++)
            for (int k = 0; k < G.xs[x].npools; k++)
                if (G.xs[x].pools[k] == p) {
                    if (x == xi)
                        served = 1;
                    else
                        only = 0; /* a pool that is shared at any time is outside the premise:
                                   * the library stops counting its blocked units */
                }
        if (served && only && (u->ends != u->incarnation || u->running))
            viol("%s of stream %d returned while unit u%d (pool %d, type %d) has not finished "
                 "(starts=%d ends=%d incarnation=%d)",
                 what, xi, i, p, u->utype, u->starts, u->ends, u->incarnation);
    }
}
static void op_xsjoin(actor *a, int xi, int do_free)
{
    (void)a;
    vxs *x = &G.xs[xi];
    if (!x->created || x->freed)
        generr("join of a dead stream");
    int pending = 0;
    for (int i = 0; i < G.nunit; i++) {
        actor *u = &G.unit[i];
        if (u->created && !u->cancelled && u->ends != u->incarnation && u->cur_pool >= 0)
            for (int k = 0; k < x->npools; k++)
                if (x->pools[k] == u->cur_pool)
                    pending++;
    }
    if (pending)
        stat_add("xsjoin_with_pending_units", 1);
    hist(a, "xsjoin_call", xi, do_free, pending);
    int rc;
    if (do_free) {
        rc = ABT_xstream_free(&x->h);
        CHECK_RC(rc, "ABT_xstream_free");
        if (x->h != ABT_XSTREAM_NULL)
            viol("ABT_xstream_free did not reset the handle");
    } else {
        rc = ABT_xstream_join(x->h);
        CHECK_RC(rc, "ABT_xstream_join");
        ABT_xstream_state st;
        rc = ABT_xstream_get_state(x->h, &st);
        CHECK_RC(rc, "ABT_xstream_get_state");
        if (st != ABT_XSTREAM_STATE_TERMINATED)
            viol("stream %d is in state %d after ABT_xstream_join", xi, (int)st);
    }
    x->joined = 1;
    units_of_stream_must_be_done(xi, do_free ? "ABT_xstream_free" : "ABT_xstream_join");
    if (do_free) {
        x->freed = 1;
        /* automatic pools die with the last scheduler that uses them */
        for (int k = 0; k < x->npools; k++)
            if (--G.pool[x->pools[k]].attached == 0)
                G.pool[x->pools[k]].h = ABT_POOL_NULL;
    }
    hist(a, "xsjoin_ret", xi, do_free, 0);
    stat_add("xsjoins", 1);
}

/* ---- pool bookkeeping oracle (C06): blocked count never negative ------------ */
static void check_pool_counts(const char *when, int quiescent)
{
    for (int i = 0; i < G.npool; i++) {
        if (G.pool[i].h == ABT_POOL_NULL || G.pool[i].kind > 2 || G.pool[i].sub >= 0)
            continue; /* pools of a stacked scheduler are freed together with it */
        size_t total = 0, size = 0;
        int rc = ABT_pool_get_total_size(G.pool[i].h, &total);
        CHECK_RC(rc, "ABT_pool_get_total_size");
        rc = ABT_pool_get_size(G.pool[i].h, &size);
        CHECK_RC(rc, "ABT_pool_get_size");
        if (quiescent) {
            ABT_bool empty = ABT_FALSE;
            rc = ABT_pool_is_empty(G.pool[i].h, &empty);
            CHECK_RC(rc, "ABT_pool_is_empty");
            if (size != 0 || total != 0 || !empty)
                viol("%s: pool %d is quiescent but reports size=%zu total_size=%zu is_empty=%d",
                     when, i, size, total, (int)empty);
        } else if ((long)(total) < 0 || total > 100000) {
            viol("%s: pool %d reports total_size=%zu (blocked-unit counter negative?)", when, i,
                 total);
        }
    }
}
static void op_poolcheck(actor *a)
{
    (void)a;
    /* total - size may be sampled concurrently with pushes, so only the sign
     * of the blocked counter itself is checked: total_size is size + blocked
     * computed in one call; a negative blocked count shows as a huge value. */
    check_pool_counts("sample", 0);
}

/* ---- C15 (b): stacks ----------------------------------------------------------- */
static struct {
    volatile int used;
    char *lo, *hi;
    int unit;
} g_stk[MAXU];
static volatile int g_stk_lock;
static void stk_lock(void)
{
    while (__atomic_exchange_n(&g_stk_lock, 1, __ATOMIC_ACQUIRE))
        if (ds_active())
            ds_point();
}
static __attribute__((noinline)) size_t stack_touch(char *limit, unsigned char pat)
{
    /* recurse with 256-byte frames until the next frame would come within one
     * frame of `limit`; returns the number of bytes of stack actually covered */
    volatile unsigned char buf[256];
    for (int i = 0; i < 256; i++)
        buf[i] = (unsigned char)(pat + i);
    size_t r = 0;
    if ((char *)buf - 1024 > limit)
        r = stack_touch(limit, (unsigned char)(pat + 1));
    else
        r = (size_t)0;
    for (int i = 0; i < 256; i++)
        if (buf[i] != (unsigned char)(pat + i))
            viol("stack contents changed under a work unit (pattern byte %d)", i);
    return r + 256;
}
/* called by a ULT: its stack must be at least as large as requested, must contain
 * the current frame, must not overlap the stack of another live ULT, and must be
 * usable down to a small margin */
static void op_stackuse(actor *a, long permille)
{
    if (a->kind != A_UNIT || a->utype != U_ULT)
        return;
    ABT_thread self;
    int rc = ABT_self_get_thread(&self);
    CHECK_RC(rc, "ABT_self_get_thread");
    size_t sz = 0;
    rc = ABT_thread_get_stacksize(self, &sz);
    CHECK_RC(rc, "ABT_thread_get_stacksize");
    if (a->stackkind && sz < (size_t)a->stacksize)
        viol("u%d asked for a %ld-byte stack, ABT_thread_get_stacksize reports %zu", a->id,
             a->stacksize, sz);
    ABT_thread_attr attr;
    rc = ABT_thread_get_attr(self, &attr);
    CHECK_RC(rc, "ABT_thread_get_attr");
    void *base = NULL;
    size_t asz = 0;
    rc = ABT_thread_attr_get_stack(attr, &base, &asz);
    CHECK_RC(rc, "ABT_thread_attr_get_stack");
    ABT_thread_attr_free(&attr);
    char here;
    char *lo = (char *)base, *hi = lo + asz;
    if (base && (&here < lo || &here >= hi))
        viol("u%d runs at %p, outside the stack [%p,%p) reported for it", a->id, (void *)&here,
             (void *)lo, (void *)hi);
    if (a->stackkind == 2 && (lo != (char *)a->ustack + a->stackoff || asz != (size_t)a->stacksize))
        viol("u%d: user-supplied stack (%p,%ld) reported as (%p,%zu)", a->id,
             (void *)((char *)a->ustack + a->stackoff), a->stacksize, (void *)lo, asz);
    if (base) {
        stk_lock();
        for (int i = 0; i < MAXU; i++)
            if (g_stk[i].used && g_stk[i].unit != a->id && lo < g_stk[i].hi && g_stk[i].lo < hi) {
                __atomic_store_n(&g_stk_lock, 0, __ATOMIC_RELEASE);
                viol("stacks of live units u%d and u%d overlap", a->id, g_stk[i].unit);
            }
        g_stk[a->id].used = 1;
        g_stk[a->id].lo = lo;
        g_stk[a->id].hi = hi;
        g_stk[a->id].unit = a->id;
        __atomic_store_n(&g_stk_lock, 0, __ATOMIC_RELEASE);
    }
    /* use the stack: everything below the current frame except a safety margin */
    size_t avail = base ? (size_t)(&here - lo) : 0;
    size_t margin = 6144;
    const char *guard = getenv("ABT_STACK_OVERFLOW_CHECK");
    if (guard && !strncmp(guard, "mprotect", 8))
        margin += 3 * 4096; /* the guard page(s) lie inside the stack (documented: up to 2 pages) */
    if (avail > margin) {
        size_t want = (avail - margin) * (size_t)permille / 1000;
        char *limit = &here - want;
        size_t got = stack_touch(limit, (unsigned char)(a->id * 7));
        stat_max("max_stack_bytes_touched", (long)got);
    }
    if (a->stackkind == 1 && (a->stacksize % 64))
        stat_add("odd_stack_sizes", 1);
    stat_add("stack_checks", 1);
}
static void stack_release(actor *a)
{
    if (a->kind == A_UNIT && g_stk[a->id].used) {
        stk_lock();
        g_stk[a->id].used = 0;
        __atomic_store_n(&g_stk_lock, 0, __ATOMIC_RELEASE);
    }
}
