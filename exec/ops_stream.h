/* ops_stream.h: execution-stream ranks and life cycle (C17).  Included by ops.h. */

static int model_rank_used(int r, int except)
{
    for (int i = 0; i < G.nxs; i++)
        if (i != except && G.xs[i].created && !G.xs[i].freed && G.xs[i].rank == r)
            return 1;
    return 0;
}
static int model_min_unused(void)
{
    for (int r = 0;; r++)
        if (!model_rank_used(r, -1))
            return r;
}
static int model_live(void)
{
    int n = 0;
    for (int i = 0; i < G.nxs; i++)
        if (G.xs[i].created && !G.xs[i].freed)
            n++;
    return n;
}
static void ensure_pools(vxs *x)
{
    for (int k = 0; k < x->npools; k++) {
        vpool *p = &G.pool[x->pools[k]];
        if (p->h == ABT_POOL_NULL) {
            int rc = ABT_pool_create_basic(pk_map[p->kind], pa_map[p->access], ABT_TRUE, &p->h);
            CHECK_RC(rc, "ABT_pool_create_basic");
        }
    }
}
static void pools_released(vxs *x)
{
    for (int k = 0; k < x->npools; k++)
        if (--G.pool[x->pools[k]].attached <= 0) {
            G.pool[x->pools[k]].attached = 0;
            G.pool[x->pools[k]].h = ABT_POOL_NULL;
        }
}
/* exact: no other actor creates or re-ranks streams concurrently */
static void op_xscreate(actor *a, int xi, int rank, int exact, int basic)
{
    vxs *x = &G.xs[xi];
    if (x->created && !x->freed)
        generr("stream %d created twice", xi);
    rlock();
    int want_fail = rank >= 0 && model_rank_used(rank, -1);
    int expect_rank = rank >= 0 ? rank : model_min_unused();
    runlock();
    ensure_pools(x);
    for (int k = 0; k < x->npools; k++)
        G.pool[x->pools[k]].attached++;
    int rc;
    x->created = 0; /* dead until the creation succeeds */
    x->freed = x->joined = 0;
    if (basic) {
        ABT_pool pools[MAXP];
        for (int k = 0; k < x->npools; k++)
            pools[k] = G.pool[x->pools[k]].h;
        rc = ABT_xstream_create_basic(ABT_SCHED_BASIC, x->npools, pools, ABT_SCHED_CONFIG_NULL, &x->h);
        CHECK_RC(rc, "ABT_xstream_create_basic");
        rc = ABT_xstream_get_main_sched(x->h, &x->sh);
        CHECK_RC(rc, "ABT_xstream_get_main_sched");
    } else {
        make_sched(x);
        rc = rank >= 0 ? ABT_xstream_create_with_rank(x->sh, rank, &x->h)
                       : ABT_xstream_create(x->sh, &x->h);
        if (exact && want_fail) {
            if (rc != ABT_ERR_INV_XSTREAM_RANK)
                viol("create_with_rank(%d) returned %d although a live stream has that rank", rank, rc);
            if (x->h != ABT_XSTREAM_NULL)
                viol("create_with_rank failed but returned a non-NULL handle");
            rc = ABT_sched_free(&x->sh);
            CHECK_RC(rc, "ABT_sched_free");
            pools_released(x);
            stat_add("rank_collisions_rejected", 1);
            hist(a, "xscreate_rejected", xi, rank, 0);
            return;
        }
        if (rc != ABT_SUCCESS && !exact && rank >= 0 && rc == ABT_ERR_INV_XSTREAM_RANK) {
            rc = ABT_sched_free(&x->sh);
            CHECK_RC(rc, "ABT_sched_free");
            pools_released(x);
            stat_add("rank_collisions_rejected", 1);
            return;
        }
        CHECK_RC(rc, "ABT_xstream_create[_with_rank]");
    }
    int got = -1;
    rc = ABT_xstream_get_rank(x->h, &got);
    CHECK_RC(rc, "ABT_xstream_get_rank");
    if (exact && got != expect_rank)
        viol("new stream got rank %d, expected %d (%s)", got, expect_rank,
             rank >= 0 ? "requested" : "smallest unused");
    rlock();
    if (model_rank_used(got, xi)) {
        runlock();
        viol("new stream got rank %d, which another live stream already has", got);
    }
    x->rank = got;
    x->created = 1;
    runlock();
    stat_add("streams_created", 1);
    hist(a, "xscreate", xi, got, 0);
}
static void op_setrank(actor *a, int xi, int rank)
{
    vxs *x = &G.xs[xi];
    if (!x->created || x->freed)
        generr("set_rank on a dead stream");
    int want_fail = model_rank_used(rank, xi);
    int rc = ABT_xstream_set_rank(x->h, rank);
    if (want_fail) {
        if (rc != ABT_ERR_INV_XSTREAM_RANK)
            viol("set_rank(%d) returned %d although another live stream has that rank", rank, rc);
        stat_add("rank_collisions_rejected", 1);
    } else {
        CHECK_RC(rc, "ABT_xstream_set_rank");
        x->rank = rank;
        stat_add("rank_changes", 1);
    }
    int got = -1;
    rc = ABT_xstream_get_rank(x->h, &got);
    CHECK_RC(rc, "ABT_xstream_get_rank");
    if (got != x->rank)
        viol("stream %d reports rank %d, the model says %d", xi, got, x->rank);
    hist(a, "setrank", xi, rank, rc);
}
static void op_rankcheck(actor *a, int check_num)
{
    (void)a;
    int ranks[MAXX], n = 0;
    for (int i = 0; i < G.nxs; i++) {
        vxs *x = &G.xs[i];
        if (!x->created || x->freed)
            continue;
        int r = -1;
        int rc = ABT_xstream_get_rank(x->h, &r);
        CHECK_RC(rc, "ABT_xstream_get_rank");
        if (r != x->rank)
            viol("stream %d reports rank %d, the model says %d", i, r, x->rank);
        for (int k = 0; k < n; k++)
            if (ranks[k] == r)
                viol("two live streams share rank %d", r);
        ranks[n++] = r;
    }
    if (check_num) {
        int num = -1;
        int rc = ABT_xstream_get_num(&num);
        CHECK_RC(rc, "ABT_xstream_get_num");
        if (num != model_live())
            viol("ABT_xstream_get_num is %d, %d streams are live", num, model_live());
    }
    stat_add("rankchecks", 1);
}
static void op_xsrevive(actor *a, int xi)
{
    vxs *x = &G.xs[xi];
    if (!x->created || x->freed || !x->joined)
        generr("revive of a stream that is not joined");
    int rc = ABT_xstream_revive(x->h);
    CHECK_RC(rc, "ABT_xstream_revive");
    x->joined = 0;
    ABT_xstream_state st;
    rc = ABT_xstream_get_state(x->h, &st);
    CHECK_RC(rc, "ABT_xstream_get_state");
    if (st != ABT_XSTREAM_STATE_RUNNING)
        viol("revived stream is in state %d", (int)st);
    stat_add("stream_revives", 1);
    hist(a, "xsrevive", xi, 0, 0);
}
/* replace the main scheduler of the caller's stream (0) or of a joined stream by
 * a predefined one over the stream's alternative pool list */
static void op_setmain(actor *a, int xi, int kind)
{
    vxs *x = &G.xs[xi];
    /* a running secondary stream may only be changed by a ULT running on it (self-replacement) */
    int self_replace = (xi != 0 && a->kind == A_UNIT && x->created && !x->joined && !x->freed);
    if (xi != 0 && !self_replace && !(x->created && x->joined && !x->freed))
        generr("set_main_sched on a running secondary stream");
    if (!x->nalt)
        generr("stream %d has no alternative pools", xi);
    vxs old = *x;
    ABT_pool pools[MAXP];
    for (int k = 0; k < x->nalt; k++) {
        vpool *p = &G.pool[x->alt[k]];
        if (p->h == ABT_POOL_NULL) {
            int rc = ABT_pool_create_basic(pk_map[p->kind], pa_map[p->access], ABT_TRUE, &p->h);
            CHECK_RC(rc, "ABT_pool_create_basic");
        }
        p->attached++;
        pools[k] = p->h;
    }
    int rc = ABT_xstream_set_main_sched_basic(x->h, sp_map[kind], x->nalt, pools);
    CHECK_RC(rc, "ABT_xstream_set_main_sched_basic");
    /* the old scheduler was automatic: it is gone, with its pools if unused */
    if (!(xi == 0 && old.sched == 0))
        pools_released(&old);
    else
        G.pool[old.pools[0]].h = ABT_POOL_NULL; /* default pool of the primary stream */
    x->npools = x->nalt;
    for (int k = 0; k < x->nalt; k++)
        x->pools[k] = x->alt[k];
    x->nalt = 0;
    x->sched = kind;
    x->sched_changed = 1;
    rc = ABT_xstream_get_main_sched(x->h, &x->sh);
    CHECK_RC(rc, "ABT_xstream_get_main_sched");
    if (xi == 0)
        G.main_a.cur_pool = x->pools[0];
    if (self_replace) {
        /* "keeps the stream and the calling ULT running under the new scheduler" */
        a->cur_pool = a->pool = a->expect_pool = x->pools[0];
        ABT_pool lp = ABT_POOL_NULL;
        rc = ABT_self_get_last_pool(&lp);
        CHECK_RC(rc, "ABT_self_get_last_pool");
        if (lp != G.pool[x->pools[0]].h)
            viol("after replacing its own stream's main scheduler the caller runs out of a pool "
                 "that is not the first pool of the new scheduler");
        stat_add("main_sched_self_replaced_secondary", 1);
    }
    stat_add("main_sched_replaced", 1);
    hist(a, "setmain", xi, kind, 0);
}
