/* envmode.c: executor mode 1 (C20 part d): ABT_init under generated environment
 * settings, report the effective configuration.  Separate translation unit
 * because it needs the library's internal headers. */
#include "abti.h"
#include <stdio.h>
#include <stdlib.h>
#include <string.h>

extern void out(const char *fmt, ...);
extern void viol(const char *fmt, ...);

static void smoke_fn(void *arg)
{
    int *p = (int *)arg;
    ABT_thread_yield();
    (*p)++;
}

void env_probe(const char *tag, const char *setting)
{
    char name[128] = "";
    if (setting) {
        const char *eq = strchr(setting, '=');
        if (!eq)
            return;
        size_t n = (size_t)(eq - setting);
        if (n >= sizeof name)
            n = sizeof name - 1;
        memcpy(name, setting, n);
        name[n] = 0;
        /* "\t" in the case text stands for a TAB */
        char val[256];
        size_t w = 0;
        for (const char *p = eq + 1; *p && w < sizeof val - 1; p++) {
            if (p[0] == '\\' && p[1] == 't') {
                val[w++] = '\t';
                p++;
            } else {
                val[w++] = *p;
            }
        }
        val[w] = 0;
        setenv(name, val, 1);
    }
    /* parse and clamp without initialising the runtime (absurd but accepted
     * values, e.g. 2^31 descriptors per stream, make ABT_init itself run for ever) */
    ABTI_global *g = (ABTI_global *)calloc(1, sizeof(ABTI_global));
    setenv("ABT_SET_AFFINITY", "0", 1);
    ABTD_env_init(g);
    out("N cfg %s max_xstreams %d", tag, g->max_xstreams);
    out("N cfg %s key_table_size %u", tag, g->key_table_size);
    out("N cfg %s thread_stacksize %zu", tag, g->thread_stacksize);
    out("N cfg %s sched_stacksize %zu", tag, g->sched_stacksize);
    out("N cfg %s sched_event_freq %u", tag, g->sched_event_freq);
    out("N cfg %s sched_sleep_nsec %lu", tag, (unsigned long)g->sched_sleep_nsec);
    out("N cfg %s mutex_max_handovers %u", tag, g->mutex_max_handovers);
    out("N cfg %s mutex_max_wakeups %u", tag, g->mutex_max_wakeups);
    out("N cfg %s sys_page_size %zu", tag, g->sys_page_size);
    out("N cfg %s huge_page_size %zu", tag, g->huge_page_size);
    size_t mps = 0, msp = 0;
    unsigned mms = 0, mmd = 0;
#ifdef ABT_CONFIG_USE_MEM_POOL
    mps = g->mem_page_size;
    msp = g->mem_sp_size;
    mms = g->mem_max_stacks;
    mmd = g->mem_max_descs;
    out("N cfg %s mem_page_size %zu", tag, g->mem_page_size);
    out("N cfg %s mem_sp_size %zu", tag, g->mem_sp_size);
    out("N cfg %s mem_max_stacks %u", tag, g->mem_max_stacks);
    out("N cfg %s mem_max_descs %u", tag, g->mem_max_descs);
#endif
    int sane = g->thread_stacksize >= 8192 && g->thread_stacksize <= (16u << 20) &&
               g->sched_stacksize >= 65536 && g->sched_stacksize <= (64u << 20) &&
               mps <= (64u << 20) && msp <= (64u << 20) && mms <= 1u << 16 && mmd <= 1u << 16 &&
               g->huge_page_size <= (1u << 30) && g->sys_page_size >= 1024 &&
               g->sys_page_size <= (1u << 20) && g->key_table_size <= 1u << 16 &&
               g->max_xstreams <= 1 << 16 &&
               /* a scheduler looks at its finish request only every sched_event_freq
                * iterations: beyond ~10^6 ABT_finalize takes seconds to minutes, which is
                * documented behaviour, not a parse result - such settings are parsed and
                * compared but not run */
               g->sched_event_freq <= (1u << 20);
    size_t expect_stack = g->thread_stacksize;
    free(g);
    if (!sane) {
        if (name[0])
            unsetenv(name);
        return;
    }
    int rc = ABT_init(0, NULL);
    if (rc != ABT_SUCCESS)
        viol("ABT_init failed (%d) under the sane configuration %s", rc, setting ? setting : "defaults");
    g = gp_ABTI_global;
    if (g->thread_stacksize != expect_stack)
        viol("ABT_init uses thread stack size %zu, the environment parser gave %zu",
             g->thread_stacksize, expect_stack);
    /* the public getters must agree */
    size_t q = 0;
    rc = ABT_info_query_config(ABT_INFO_QUERY_KIND_DEFAULT_THREAD_STACKSIZE, &q);
    if (rc != ABT_SUCCESS || q != g->thread_stacksize)
        viol("ABT_info_query_config(DEFAULT_THREAD_STACKSIZE) = %zu, runtime uses %zu", q,
             g->thread_stacksize);
    /* smoke workload when the configuration is of sane magnitude */
    {
        int counter = 0;
        ABT_xstream xs;
        ABT_pool pool;
        ABT_thread th[4];
        ABT_xstream_self(&xs);
        ABT_xstream_get_main_pools(xs, 1, &pool);
        int made = 0;
        for (int i = 0; i < 4; i++) {
            rc = ABT_thread_create(pool, smoke_fn, &counter, ABT_THREAD_ATTR_NULL, &th[i]);
            if (rc != ABT_SUCCESS)
                break;
            made++;
        }
        for (int i = 0; i < made; i++)
            ABT_thread_free(&th[i]);
        if (counter != made)
            viol("smoke workload: %d of %d units ran under %s", counter, made, setting ? setting : "defaults");
        out("N cfg %s smoke %d", tag, made);
    }
    rc = ABT_finalize();
    if (rc != ABT_SUCCESS)
        viol("ABT_finalize returned %d under %s", rc, setting ? setting : "defaults");
    if (name[0])
        unsetenv(name);
}
