/* mempool.c: executor mode 2 (C15, white-box part): a driver for the memory
 * pool that backs work-unit descriptors and stacks.  Several threads, each
 * with its own ABTI_mem_pool_local_pool, share one ABTI_mem_pool_global_pool
 * and run generated scripts of allocations, frees (also of blocks that another
 * thread allocated) and local-pool destructions/re-creations.
 *
 * Oracle (checked inline, under one harness lock):
 *  - a block handed out does not overlap any other live block, lies on the
 *    header grid of the pool and is aligned as the configuration promises;
 *  - the contents of a live block are not touched by the pool (pattern check
 *    at free time);
 *  - conservation: when every block has been freed and every local pool has
 *    been destroyed, the blocks reachable in the global pool (complete buckets
 *    + the partial bucket, counted through the pool's own counters) are
 *    pairwise distinct and exactly as many as were carved out of the pages;
 *  - destroying the global pool releases every page (LeakSanitizer flavours).
 *
 * Separate translation unit because it needs the library's internal headers. */
#include "abti.h"
#include <pthread.h>
#include <stdio.h>
#include <stdlib.h>
#include <string.h>

extern void out(const char *fmt, ...);
extern void viol(const char *fmt, ...);
extern void generr(const char *fmt, ...);
extern void stat_add(const char *key, long v);

#define MP_MAXT 4
#define MP_MAXLIVE 4096
#define MP_MAXSCRIPT 2048

static struct {
    int nlocal, hpb, hsize, hoff, page, lp;
    char script[MP_MAXT][MP_MAXSCRIPT];
} P;

struct blk {
    char *base; /* segment start = returned pointer - header_offset */
    uint32_t owner, serial;
};

static ABTI_mem_pool_global_pool g_pool;
static ABTI_mem_pool_local_pool g_local[MP_MAXT];
static pthread_mutex_t g_lock = PTHREAD_MUTEX_INITIALIZER;
static struct blk g_live[MP_MAXLIVE]; /* every live block (registry) */
static int g_nlive;
static struct blk g_mine[MP_MAXT][MP_MAXLIVE]; /* blocks held by each thread */
static int g_nmine[MP_MAXT];
static struct blk g_exch[MP_MAXLIVE]; /* blocks handed to "someone else" */
static int g_nexch;
static long g_allocs, g_frees, g_cross, g_redo, g_from_global, g_to_global;

static long kvl(const char *line, const char *key, long dflt)
{
    char pat[64];
    snprintf(pat, sizeof pat, " %s=", key);
    const char *p = strstr(line, pat);
    return p ? strtol(p + strlen(pat), NULL, 10) : dflt;
}

void mp_line(const char *line)
{
    if (!strncmp(line, "mp pool", 7)) {
        P.nlocal = (int)kvl(line, "nlocal", 1);
        P.hpb = (int)kvl(line, "hpb", 2);
        P.hsize = (int)kvl(line, "hsize", 64);
        P.hoff = (int)kvl(line, "hoff", 0);
        P.page = (int)kvl(line, "page", 4096);
        P.lp = (int)kvl(line, "lp", 0);
        if (P.nlocal < 1 || P.nlocal > MP_MAXT || P.hpb < 1 || P.hsize < 16 || (P.hsize & 7) ||
            (P.hoff & 7) || P.hoff + (int)sizeof(ABTI_mem_pool_header) > P.hsize ||
            P.page < P.hsize + (int)sizeof(ABTI_mem_pool_page))
            generr("bad mp pool line");
    } else if (!strncmp(line, "mp t", 4)) {
        int t = line[4] - '0';
        const char *c = strchr(line, ':');
        if (t < 0 || t >= MP_MAXT || !c || strlen(c + 1) >= MP_MAXSCRIPT)
            generr("bad mp script line");
        strcpy(P.script[t], c + 1);
    } else {
        generr("unknown mp line");
    }
}

static void fill(struct blk *b)
{
    /* the whole segment belongs to the holder while the block is live */
    uint32_t *w = (uint32_t *)b->base;
    for (int i = 0; i < P.hsize / 4; i++)
        w[i] = b->owner * 0x01000193u ^ b->serial * 0x9E3779B1u ^ (uint32_t)i;
}
static void verify(struct blk *b, const char *when)
{
    uint32_t *w = (uint32_t *)b->base;
    for (int i = 0; i < P.hsize / 4; i++)
        if (w[i] != (b->owner * 0x01000193u ^ b->serial * 0x9E3779B1u ^ (uint32_t)i))
            viol("memory pool: contents of a live block (allocated by pool %u, #%u) changed "
                 "at byte %d before it was freed (%s)",
                 b->owner, b->serial, i * 4, when);
}

static void reg_add(struct blk *b)
{
    pthread_mutex_lock(&g_lock);
    for (int i = 0; i < g_nlive; i++) {
        char *o = g_live[i].base;
        if (b->base < o + P.hsize && o < b->base + P.hsize)
            viol("memory pool handed out a block (%p, pool %u) that overlaps a live block "
                 "(%p, allocated by pool %u, #%u)",
                 (void *)b->base, b->owner, (void *)o, g_live[i].owner, g_live[i].serial);
    }
    if (g_nlive >= MP_MAXLIVE)
        generr("too many live blocks");
    g_live[g_nlive++] = *b;
    g_allocs++;
    pthread_mutex_unlock(&g_lock);
}
static void reg_del(struct blk *b)
{
    pthread_mutex_lock(&g_lock);
    int i;
    for (i = 0; i < g_nlive; i++)
        if (g_live[i].base == b->base)
            break;
    if (i == g_nlive)
        generr("harness: freeing an unregistered block");
    g_live[i] = g_live[--g_nlive];
    g_frees++;
    pthread_mutex_unlock(&g_lock);
}

static void do_alloc(int t, uint32_t *serial)
{
    void *mem = NULL;
    if (g_local[t].bucket_index == 0 && g_local[t].buckets[0]->bucket_info.num_headers == 1)
        __atomic_fetch_add(&g_from_global, 1, __ATOMIC_RELAXED); /* will take a bucket */
    int rc = ABTI_mem_pool_alloc(&g_local[t], &mem);
    if (rc != ABT_SUCCESS || !mem)
        viol("ABTI_mem_pool_alloc failed (rc=%d) although memory is available", rc);
    struct blk b = { (char *)mem - P.hoff, (uint32_t)t, (*serial)++ };
    if ((uintptr_t)mem & 7)
        viol("memory pool returned a misaligned block %p", mem);
    if ((P.hsize & 63) == 0 && (P.hoff & 63) == 0 && ((uintptr_t)mem & 63))
        viol("memory pool returned %p: not cache-line aligned although element size %d and "
             "offset %d are multiples of 64",
             mem, P.hsize, P.hoff);
    reg_add(&b);
    fill(&b);
    if (g_nmine[t] >= MP_MAXLIVE)
        generr("too many blocks");
    g_mine[t][g_nmine[t]++] = b;
}
static void do_free(int t, struct blk *b)
{
    verify(b, "free");
    reg_del(b);
    if ((int)b->owner != t)
        __atomic_fetch_add(&g_cross, 1, __ATOMIC_RELAXED);
    if (g_local[t].bucket_index == ABT_MEM_POOL_MAX_LOCAL_BUCKETS - 1 &&
        g_local[t].buckets[g_local[t].bucket_index]->bucket_info.num_headers == (size_t)P.hpb)
        __atomic_fetch_add(&g_to_global, 1, __ATOMIC_RELAXED); /* will return a bucket */
    ABTI_mem_pool_free(&g_local[t], b->base + P.hoff);
}

static void *mp_thread(void *arg)
{
    int t = (int)(intptr_t)arg;
    uint32_t serial = 0;
    const char *s = P.script[t];
    while (*s) {
        char c = *s++;
        long n = 0;
        if (*s >= '0' && *s <= '9')
            n = strtol(s, (char **)&s, 10);
        switch (c) {
            case ' ':
                break;
            case 'a':
                do_alloc(t, &serial);
                break;
            case 'f': /* free one of my own blocks */
                if (g_nmine[t]) {
                    int k = (int)(n % g_nmine[t]);
                    struct blk b = g_mine[t][k];
                    g_mine[t][k] = g_mine[t][--g_nmine[t]];
                    do_free(t, &b);
                }
                break;
            case 'g': /* give one of my blocks away */
                if (g_nmine[t]) {
                    int k = (int)(n % g_nmine[t]);
                    struct blk b = g_mine[t][k];
                    g_mine[t][k] = g_mine[t][--g_nmine[t]];
                    pthread_mutex_lock(&g_lock);
                    g_exch[g_nexch++] = b;
                    pthread_mutex_unlock(&g_lock);
                }
                break;
            case 't': { /* take a block somebody gave away and free it here */
                struct blk b;
                int have = 0;
                pthread_mutex_lock(&g_lock);
                if (g_nexch) {
                    int k = (int)(n % g_nexch);
                    b = g_exch[k];
                    g_exch[k] = g_exch[--g_nexch];
                    have = 1;
                }
                pthread_mutex_unlock(&g_lock);
                if (have)
                    do_free(t, &b);
                break;
            }
            case 'd': /* the stream goes away and a new one appears */
                ABTI_mem_pool_destroy_local_pool(&g_local[t]);
                if (ABTI_mem_pool_init_local_pool(&g_local[t], &g_pool) != ABT_SUCCESS)
                    viol("ABTI_mem_pool_init_local_pool failed");
                __atomic_fetch_add(&g_redo, 1, __ATOMIC_RELAXED);
                break;
            default:
                generr("bad mp script op '%c'", c);
        }
    }
    return NULL;
}

/* ---- conservation: what the global pool can reach once everything is back ---- */
static int cmp_ptr(const void *a, const void *b)
{
    uintptr_t x = *(const uintptr_t *)a, y = *(const uintptr_t *)b;
    return x < y ? -1 : x > y;
}
static void conservation(void)
{
    size_t carved = 0, npages = 0;
    struct {
        char *mem;
        size_t used;
    } pages[MP_MAXLIVE];
    /* pages with space left, then full pages */
    void *top;
    size_t tag;
    ABTD_atomic_relaxed_load_non_atomic_tagged_ptr(&g_pool.mem_page_lifo.p_top, &top, &tag);
    for (ABTI_sync_lifo_element *e = (ABTI_sync_lifo_element *)top; e; e = e->p_next) {
        ABTI_mem_pool_page *pg =
            (ABTI_mem_pool_page *)((char *)e - offsetof(ABTI_mem_pool_page, lifo_elem));
        pages[npages].mem = (char *)pg->mem;
        pages[npages++].used = (size_t)((char *)pg->p_mem_extra - (char *)pg->mem);
    }
    for (ABTI_mem_pool_page *pg =
             (ABTI_mem_pool_page *)ABTD_atomic_relaxed_load_ptr(&g_pool.p_mem_page_empty);
         pg; pg = pg->p_next_empty_page) {
        pages[npages].mem = (char *)pg->mem;
        pages[npages++].used = (size_t)((char *)pg->p_mem_extra - (char *)pg->mem);
    }
    for (size_t i = 0; i < npages; i++) {
        if (pages[i].used % (size_t)P.hsize)
            viol("memory pool page bookkeeping: %zu bytes carved, not a multiple of the element "
                 "size %d",
                 pages[i].used, P.hsize);
        carved += pages[i].used / (size_t)P.hsize;
    }
    /* reachable headers */
    static uintptr_t seen[MP_MAXLIVE * 2];
    size_t nseen = 0, nbuckets = 0;
    ABTD_atomic_relaxed_load_non_atomic_tagged_ptr(&g_pool.bucket_lifo.p_top, &top, &tag);
    for (ABTI_sync_lifo_element *e = (ABTI_sync_lifo_element *)top; e; e = e->p_next) {
        ABTI_mem_pool_header *h =
            (ABTI_mem_pool_header *)((char *)e - offsetof(ABTI_mem_pool_header, bucket_info));
        nbuckets++;
        for (int k = 0; k < P.hpb; k++) {
            if (!h)
                viol("memory pool: a bucket in the global pool has only %d of %d blocks", k, P.hpb);
            if (nseen < MP_MAXLIVE * 2)
                seen[nseen++] = (uintptr_t)h;
            h = h->p_next;
        }
        if (nbuckets > MP_MAXLIVE)
            viol("memory pool: the global bucket list is cyclic");
    }
    long partial = 0;
    if (g_pool.partial_bucket) {
        partial = (long)g_pool.partial_bucket->bucket_info.num_headers;
        if (partial <= 0 || partial >= P.hpb)
            viol("memory pool: the partial bucket claims %ld blocks (a bucket holds %d)", partial,
                 P.hpb);
        ABTI_mem_pool_header *h = g_pool.partial_bucket;
        for (long k = 0; k < partial; k++) {
            if (!h)
                viol("memory pool: the partial bucket has only %ld of %ld blocks", k, partial);
            if (nseen < MP_MAXLIVE * 2)
                seen[nseen++] = (uintptr_t)h;
            h = h->p_next;
        }
    }
    qsort(seen, nseen, sizeof seen[0], cmp_ptr);
    for (size_t i = 0; i < nseen; i++) {
        if (i && seen[i] == seen[i - 1])
            viol("memory pool: block %p is in the global pool twice", (void *)seen[i]);
        char *base = (char *)seen[i] - P.hoff;
        int ok = 0;
        for (size_t p = 0; p < npages; p++)
            if (base >= pages[p].mem && base + P.hsize <= pages[p].mem + pages[p].used &&
                (size_t)(base - pages[p].mem) % (size_t)P.hsize == 0)
                ok = 1;
        if (!ok)
            viol("memory pool: free block %p is not an element of any page", (void *)seen[i]);
    }
    if (nseen != carved)
        viol("memory pool lost blocks: %zu blocks were carved out of %zu pages, but after every "
             "block was freed and every local pool destroyed only %zu are reachable (%zu buckets "
             "of %d + %ld partial)",
             carved, npages, nseen, nbuckets, P.hpb, partial);
    stat_add("mp_pages", (long)npages);
    stat_add("mp_carved", (long)carved);
    stat_add("mp_buckets_global", (long)nbuckets);
    stat_add("mp_partial", partial);
}

void mp_run(void)
{
    ABTU_MEM_LARGEPAGE_TYPE req[2];
    int nreq = 0;
    switch (P.lp) {
        case 0:
            req[nreq++] = ABTU_MEM_LARGEPAGE_MALLOC;
            break;
        case 1:
            req[nreq++] = ABTU_MEM_LARGEPAGE_MEMALIGN;
            break;
        case 2:
            req[nreq++] = ABTU_MEM_LARGEPAGE_MMAP;
            break;
        case 3: /* huge pages if the machine has them, regular mmap otherwise */
            req[nreq++] = ABTU_MEM_LARGEPAGE_MMAP_HUGEPAGE;
            req[nreq++] = ABTU_MEM_LARGEPAGE_MMAP;
            break;
        default:
            req[nreq++] = ABTU_MEM_LARGEPAGE_MMAP_HUGEPAGE;
            req[nreq++] = ABTU_MEM_LARGEPAGE_MEMALIGN;
            break;
    }
    ABTI_mem_pool_init_global_pool(&g_pool, (size_t)P.hpb, (size_t)P.hsize, (size_t)P.hoff,
                                   (size_t)P.page, req, (uint32_t)nreq, 4096, NULL);
    for (int t = 0; t < P.nlocal; t++)
        if (ABTI_mem_pool_init_local_pool(&g_local[t], &g_pool) != ABT_SUCCESS)
            viol("ABTI_mem_pool_init_local_pool failed");
    pthread_t th[MP_MAXT];
    for (int t = 1; t < P.nlocal; t++)
        if (pthread_create(&th[t], NULL, mp_thread, (void *)(intptr_t)t) != 0)
            generr("pthread_create failed");
    mp_thread((void *)(intptr_t)0);
    for (int t = 1; t < P.nlocal; t++)
        pthread_join(th[t], NULL);
    stat_add("mp_allocs", g_allocs);
    stat_add("mp_frees", g_frees);
    stat_add("mp_cross_frees", g_cross);
    stat_add("mp_local_redos", g_redo);
    stat_add("mp_from_global", g_from_global);
    stat_add("mp_to_global", g_to_global);
    stat_add("mp_live_at_end", g_nlive);
    /* whatever is still live is freed through the first pool */
    for (int t = 0; t < P.nlocal; t++)
        for (int k = 0; k < g_nmine[t]; k++)
            do_free(0, &g_mine[t][k]);
    for (int k = 0; k < g_nexch; k++)
        do_free(0, &g_exch[k]);
    if (g_nlive != 0)
        generr("harness: registry not empty");
    for (int t = 0; t < P.nlocal; t++)
        ABTI_mem_pool_destroy_local_pool(&g_local[t]);
    conservation();
    ABTI_mem_pool_destroy_global_pool(&g_pool);
}
