#!/usr/bin/env python3
"""Regenerate MANIFEST.json from the table below (kept in one place so that the
manifest is always valid and in step with what is built)."""
import json, os, sys

VERIF = os.path.dirname(os.path.dirname(os.path.abspath(__file__)))

DS_NOTE = ("Trusted base: the dsched scheduler and its emulation of pthread/futex/clock "
           "primitives (inst/dsched.c), the executor's inline oracles (exec/), gcc/clang. "
           "Schedules are sampled (random pre-emption with p in 1..1/1024, PCT depth 1-3), "
           "not enumerated; x86-TSO/weak-memory reorderings are not modelled; liveness is "
           "bounded liveness (exact deadlock detection + step budget under a fair tail).")

# id -> (technique, level category, level text, design ref, note)
CLAIMED = {
    "C04": ("stateful property-based testing (Hypothesis) of generated lock programs under a "
            "harness-owned deterministic scheduler; inline mutual-exclusion/trylock oracle; "
            "deadlock and step-budget oracle for lost wake-ups",
            "exploration",
            "Generated multi-actor lock/trylock/unlock programs (ULT, tasklet, external thread; "
            "dynamic, recursive and static mutexes) run under generated schedules; every run "
            "checks holder bookkeeping at each acquisition and that all lockers finish. "
            "Finds interleaving-dependent violations with replayable cases; does not prove absence.",
            "DESIGN.md section 5 (C04)", DS_NOTE),
}

def sync_entry(what, ref):
    return ("stateful property-based testing (Hypothesis) of generated multi-actor programs under a "
            "harness-owned deterministic scheduler and virtual clock; inline oracle: " + what +
            "; deadlock and step-budget oracle for lost wake-ups",
            "exploration",
            "Generated programs (ULT / tasklet / external-thread actors on 1-3 streams) run under "
            "generated schedules (random pre-emption, PCT) plus sanitizer and real-parallel modes; "
            "each run checks " + what + ". Finds interleaving-dependent violations with replayable "
            "cases; does not prove absence.", ref, DS_NOTE)


CLAIMED["C05"] = sync_entry("credit accounting under the monitor mutex (no spurious, lost or duplicated "
                            "wake-up; waiter returns holding the mutex)", "DESIGN.md section 5 (C05)")
CLAIMED["C08"] = sync_entry("per-round arrival counters (nobody released before n arrivals, nobody "
                            "counted twice, reinit honoured)", "DESIGN.md section 5 (C08)")
CLAIMED["C09"] = sync_entry("set/wait/test ordering, value bytes of the single successful set, exact "
                            "success counts and callback-before-ready for futures",
                            "DESIGN.md section 5 (C09)")
CLAIMED["C10"] = sync_entry("reader/writer holder counters and the reader-rendezvous pattern",
                            "DESIGN.md section 5 (C10)")
CLAIMED["C19"] = sync_entry("phase-structured timed waits on the virtual clock: exactly the waiters whose "
                            "deadline passed time out, each later signal releases exactly one remaining "
                            "waiter, TIMEDOUT only after the deadline (cond part; blocking pool pops are "
                            "pool part: linearizable histories with pop_wait / pop_timedwait under the virtual clock)", "DESIGN.md section 5 (C19)")

CLAIMED["C01"] = sync_entry("exactly-once start/end bookkeeping per incarnation with function, argument and "
                            "serving-stream checks, join-after-end, empty pools at quiescence, over generated "
                            "topologies (pool kinds, access modes, shared pools, stacked schedulers)",
                            "DESIGN.md section 5 (C01)")
CLAIMED["C03"] = sync_entry("join/free return only after the target's end record (state TERMINATED, handle "
                            "NULL, payload visible, cancelled targets never run again) for all caller/target "
                            "kind combinations; descriptor double-free visible to ASan in the no-mem-pool flavour",
                            "DESIGN.md section 5 (C03)")
CLAIMED["C06"] = sync_entry("at the return of ABT_xstream_join/free every unit served only by that stream has "
                            "ended and the stream is TERMINATED; ABT_finalize runs what is left; blocked-unit "
                            "counter never negative", "DESIGN.md section 5 (C06)")

CLAIMED["C11"] = sync_entry("(a) differential: observed order of (unit, op) events, popped units and sampled states "
                            "of generated single-stream chains of directed switches must equal a reference "
                            "interpreter of the documented semantics; (b) resume race: a suspended ULT never "
                            "runs again before a resume was issued, k resumes give k returns",
                            "DESIGN.md section 5 (C11)")
CLAIMED["C12"] = sync_entry("sampled ABT_thread_get_state values checked against the life-cycle automaton "
                            "(TERMINATED only after end/exit/cancel and absorbing until revive, a running unit "
                            "sees itself RUNNING), no op after exit, a cancelled unit does not survive a "
                            "scheduling point begun after the cancel returned, exactly one start per revive",
                            "DESIGN.md section 5 (C12)")
CLAIMED["C13"] = sync_entry("documented rejection codes; after an accepted request has returned the unit's next "
                            "slice reports a pool that can be in force under the interval order of the request "
                            "calls; callback count bounds; exactly-once execution",
                            "DESIGN.md section 5 (C13)")

CLAIMED["C16"] = sync_entry("per-(unit,key) value records: a get returns a value not superseded under the "
                            "interval order of the set calls and never another unit's or key's record; "
                            "destructors exactly once for final non-NULL values after free/finalize",
                            "DESIGN.md section 5 (C16)")
CLAIMED["C17"] = sync_entry("set-of-ranks reference model: smallest unused rank on creation, requested / changed "
                            "rank granted iff unused (else ABT_ERR_INV_XSTREAM_RANK and nothing changes), "
                            "ABT_xstream_get_num, distinct ranks after concurrent creation, work completes "
                            "after revive and main-scheduler replacement",
                            "DESIGN.md section 5 (C17)")

CLAIMED["C07"] = sync_entry("Wing-Gong linearizability search of every recorded pool history (call/return "
                            "ticks, results) against a sequential FIFO / deque model; quiescent size and "
                            "emptiness equal the model; blocking pops return in bounded virtual time",
                            "DESIGN.md section 5 (C07)")

CLAIMED["C20"] = ("coverage-guided fuzzing (libFuzzer + ASan/UBSan) of three in-process targets with in-target "
                  "oracles (reference map, 128-bit reference parser, independent recursive-descent grammar) "
                  "plus Hypothesis-generated environment strings checked by metamorphic relations",
                  "exploration",
                  "libFuzzer explores the parsers and config maps with structured byte decoding; every execution "
                  "is compared with a reference, sanitizers make overflow and out-of-bounds visible; environment "
                  "variables are checked through monotonicity, saturation, default-on-junk and rounding relations "
                  "on the values ABTD_env_init computes, plus a smoke workload for sane configurations.",
                  "DESIGN.md section 5 (C20)",
                  "Trusted base: the reference parsers in fuzz/fz.c and gen/c20.py, clang sanitizers. libFuzzer "
                  "campaigns are reproducible only through their saved artefacts. The affinity parser is driven "
                  "directly because the pinned build is configured without --enable-affinity.")

CLAIMED["C14"] = sync_entry("call automaton per user-pool unit handle (create_unit once per association, "
                            "free_unit once at its end, never a push/free of a dead or foreign handle), "
                            "unit<->work-unit translation checked by running units while other streams create "
                            "and destroy units in the same hash bucket, creates == frees after finalize, "
                            "exactly-once execution under arbitrary pop policies and a user-defined scheduler",
                            "DESIGN.md section 5 (C14)")

CLAIMED["C15"] = ("property-based testing (Hypothesis) with two generators: (a) API programs that create ULTs with "
                  "generated stack sizes / user stacks at 8-byte offsets / memory-pool environment settings, use "
                  "the promised stack depth and free from any actor, under the deterministic scheduler, ASan/LSan "
                  "and real threads; (b) a white-box driver of ABTI_mem_pool (generated alloc / free / cross-pool "
                  "free / local-pool destroy scripts on 1-4 threads over generated bucket, element, page and "
                  "large-page settings) with an ownership registry and a conservation walk as oracle",
                  "exploration",
                  "Every generated case checks: stack range >= requested and usable (pattern write/verify down to "
                  "the limit), no overlap between live stacks, allocator intact after free (glibc / ASan), LSan-clean "
                  "finalize; pool driver: disjoint live blocks, grid/cache-line alignment, contents untouched, "
                  "reachable blocks == carved blocks after all frees, pages released. Scripts under dsched include a "
                  "scheduling point at the 128-bit CAS of the tagged-pointer LIFO. Finds violations with replayable "
                  "cases; does not prove absence.",
                  "DESIGN.md section 5 (C15)", DS_NOTE)

CLAIMED["C18"] = ("property-based fault injection (Hypothesis): generated contexts and call lists where the k-th "
                  "allocation event of the calling thread (malloc family, mmap, pthread_create, pthread_*_init, "
                  "intercepted with ld --wrap) fails, for 35 creating / initialising routines and ABT_init; "
                  "oracle: error code, NULL-or-untouched handle, snapshot of pre-existing objects, successful "
                  "retry, follow-up workload, empty resource ledger after ABT_finalize",
                  "fault_enumeration",
                  "For each generated case (environment x 1-3 streams x caller kind x list of (routine, arguments, k)) "
                  "every call is made with allocation event k failing; k is drawn from 1..16 (about 90 %) "
                  "and from 17..260 (ABT_init: up to 500): most routines perform fewer than 16 allocation events, "
                  "stream creation and ABT_init up to a few hundred under small-page memory settings (the evidence "
                  "file reports the maximum per routine as n:<routine>), so high indices are sampled sparsely; the "
                  "thorough tier draws ~190k cases with ~1M calls. Checked per call: no crash (ASan/UBSan builds, with and without memory pools), "
                  "documented handle value, unchanged getters of every pre-existing object, retry succeeds, result "
                  "usable; per case: ledger of mallocs, mappings and pthread objects empty after finalize and after "
                  "a failed ABT_init. Single failures only (no persistent out-of-memory), failures on the calling "
                  "thread only; ABT_thread_create_many is excluded (documented as undefined on error).",
                  "DESIGN.md section 5 (C18)",
                  "Trusted base: ld --wrap interception (libc-internal allocations are invisible), the executor's "
                  "oracle in exec/faults.c, gcc sanitizers. Sampled, not exhaustive, over argument and context "
                  "combinations; per-(routine,k) hit counts are in the evidence file.")

CLAIMED["C02"] = sync_entry("machine-context canaries around every operation of every ULT (assembly trampoline: live "
                            "seed-derived values in rbx, rbp, r12-r15, MXCSR control bits, x87 control word and a block of "
                            "the ULT's stack, compared after the operation and whatever switches it performed), an atomic "
                            "in-operation flag and a double program counter (stack + heap) that expose a ULT running on two "
                            "streams or resumed from a stale context, an entry shim checking rsp % 16 == 8 for every work-unit "
                            "function, stack pattern/disjointness checks; over all directed-switch primitives x started / "
                            "never-started targets x stack provenance (pool, malloc'ed odd sizes, user stacks at 8-byte "
                            "offsets) and over ULTs in pools shared by several streams (yield, suspend/resume, join hand-off, "
                            "mutex, eventual)", "DESIGN.md section 5 (C02)")

NOT_BUILT = "check not built yet in this session (see DESIGN.md section 10 for the build order)"


def main():
    props = [json.loads(l) for l in open(os.path.join(VERIF, "properties.jsonl"))]
    checks, na = [], []
    for p in props:
        pid = p["id"]
        if pid in CLAIMED:
            tech, cat, text, ref, note = CLAIMED[pid]
            checks.append({
                "property_id": pid,
                "quick_cmd": "./check %s --tier quick" % pid,
                "thorough_cmd": "./check %s --tier thorough" % pid,
                "evidence_file": "evidence/%s.json" % pid,
                "replay_cmd_template": "./check %s --replay {path}" % pid,
                "engine": "libfuzzer+hypothesis" if pid == "C20" else "abtx+dsched+hypothesis",
                "level_claimed": {"category": cat, "text": text, "design_ref": ref},
                "level_note": note,
                "technique": tech,
            })
        else:
            na.append({"property_id": pid, "reason": NOT_BUILT})
    m = {
        "version": 1,
        "setup_cmd": "./setup.sh",
        "hooks": {
            "guard": "ABT_VERIF_DSCHED",
            "enable": "no source edits: the checks compile /repo/src out of tree with "
                      "-DABT_VERIF_DSCHED -include /verif/inst/vhook.h (macro layer over the "
                      "__atomic builtins) or with clang -fsanitize=thread objects linked against "
                      "/verif/inst/tsanrt.c, and link with -Wl,--wrap for blocking calls",
            "baseline_off_cmd": "cd /repo && make -j8 >/dev/null && make -C test check -j8",
            "source_commits": [],
            "add_only": True,
        },
        "engines": [
            {"name": "libfuzzer+hypothesis", "path": "check", "serves_properties": ["C20"],
             "kind_free_text": "libFuzzer targets fuzz/fz.c (clang -fsanitize=fuzzer,address,undefined) with "
                               "in-target reference oracles; gen/c20.py drives them and the environment part"},
            {"name": "abtx+dsched+hypothesis", "path": "check",
             "serves_properties": sorted(k for k in CLAIMED if k != "C20"),
             "kind_free_text": "Hypothesis generators (gen/*.py) drive a C executor (exec/) that "
                               "interprets generated Argobots programs under a deterministic "
                               "user-space scheduler (inst/dsched.c) owning every interleaving "
                               "and the clock; libFuzzer targets for parsers and maps"},
        ],
        "checks": checks,
        "not_applicable": na,
        "notes": "See DESIGN.md. Replays live under replays/<id>/; known findings in known_findings.json.",
    }
    with open(os.path.join(VERIF, "MANIFEST.json"), "w") as f:
        json.dump(m, f, indent=1)
    print("claimed:", len(checks), "not claimed:", len(na))


if __name__ == "__main__":
    main()
