#!/usr/bin/env python3
"""Write seeded/<id>/meta.json from the sub-agent's README.md, validation.json and the
kill matrix (seeded/matrix.tsv: seed, check, KILLED|SURVIVED, first line)."""
import json, os, re, sys

VERIF = os.path.dirname(os.path.dirname(os.path.abspath(__file__)))
SEEDED = os.path.join(VERIF, "seeded")


def section(md, pat):
    m = re.search(r"^##+ [^\n]*(%s)[^\n]*\n(.*?)(?=^##+ |\Z)" % pat, md, re.M | re.S | re.I)
    return re.sub(r"\s+", " ", m.group(2)).strip() if m else ""


def main():
    matrix = {}
    mp = os.path.join(SEEDED, "matrix.tsv")
    if os.path.exists(mp):
        for l in open(mp):
            f = l.rstrip("\n").split("\t")
            if len(f) >= 3:
                matrix.setdefault(f[0], {})[f[1]] = {"result": f[2], "first_line": f[3] if len(f) > 3 else ""}
    for sid in sorted(os.listdir(SEEDED)):
        d = os.path.join(SEEDED, sid)
        if not os.path.isdir(d):
            continue
        md = open(os.path.join(d, "README.md")).read()
        title = md.splitlines()[0].lstrip("# ").strip()
        patch = open(os.path.join(d, "patch.diff")).read()
        files = sorted(set(re.findall(r"^\+\+\+ b/(\S+)", patch, re.M)))
        val = json.load(open(os.path.join(d, "validation.json")))
        needs = section(md, "needed|manifest")
        breaks = section(md, "part of the property|property break|property is broken|breaks")
        rebased = os.path.exists(os.path.join(d, "patch.orig.diff"))
        res = matrix.get(sid, {})
        meta = {
            "seed": sid,
            "property": sid[:3],
            "title": title,
            "files_changed": files,
            "breaks": breaks[:1500],
            "needs_to_manifest": needs[:2000],
            "produced_by": "independent sub-agent given only the property text and a scratch git worktree of /repo",
            "what_i_ran": [
                "tools/seed_validate <worktree> <a|b> %s : git apply patch.diff; make; make -C test check "
                "(all %d tests pass, %d fail); sh run_demo.sh with the change -> exit %s; without -> exit %s"
                % (sid, val.get("tests_pass", 0), val.get("tests_fail", 0),
                   val.get("demo_rc_with_change"), val.get("demo_rc_without")),
                "tools/seed_matrix / tools/mutation_check seeded/%s/patch.diff <Cxx> quick "
                "(scratch copy of /repo with the patch applied, ./check <Cxx> with VERIF_REPO pointing at it)" % sid,
            ],
            "rebased_onto_fix_commits": rebased,
            "checks": res,
            "killed_by": sorted(c for c, r in res.items() if r["result"] == "KILLED"),
            "survived": sorted(c for c, r in res.items() if r["result"] == "SURVIVED"),
        }
        np = os.path.join(d, "note.txt")
        if os.path.exists(np):
            meta["strengthening_note"] = open(np).read().strip()
        if rebased:
            meta["rebase_note"] = ("patch.orig.diff is the sub-agent's patch against the tree it was given; a later fix: "
                                   "commit rewrote the same lines, patch.diff is the same change re-applied to the "
                                   "current HEAD and re-validated (test suite passes, demo fails with / passes without)")
        json.dump(meta, open(os.path.join(d, "meta.json"), "w"), indent=1)
    print("meta.json written for", len([s for s in os.listdir(SEEDED) if os.path.isdir(os.path.join(SEEDED, s))]), "seeds")


if __name__ == "__main__":
    main()
