#!/usr/bin/env python3
"""Regenerate the tables of DESIGN.md section 9 (between the BEGIN/END markers) from
mutants/matrix.tsv and seeded/matrix.tsv + seeded/*/meta.json."""
import json, os, re

V = os.path.dirname(os.path.dirname(os.path.abspath(__file__)))


def rows(p):
    out = []
    if os.path.exists(p):
        for l in open(p):
            f = l.rstrip("\n").split("\t")
            if len(f) >= 3:
                out.append(f + [""] * (4 - len(f)))
    return out


def clean(s, n=90):
    s = re.sub(r"/tmp/vmut\.[A-Za-z0-9]+/cache/tree-\w+/", "", s)
    s = s.replace("|", "/")
    return s[:n]


def main():
    mut = rows(os.path.join(V, "mutants", "matrix.tsv"))
    t1 = ["| mutant | check | result | first failing line |", "|---|---|---|---|"]
    for b, c, v, msg in sorted(mut):
        t1.append("| `%s` | %s | %s | %s |" % (b, c, v.lower(), clean(msg)))
    seeds = {}
    for s, c, v, msg in rows(os.path.join(V, "seeded", "matrix.tsv")):
        seeds.setdefault(s, {})[c] = (v, msg)
    t2 = ["| seed | change (file) | own check | other checks run against it | what the own check reported |",
          "|---|---|---|---|---|"]
    for s in sorted(seeds):
        meta = json.load(open(os.path.join(V, "seeded", s, "meta.json")))
        own = s[:3]
        ov = seeds[s].get(own, ("not run", ""))
        others = ", ".join("%s: %s" % (c, v.lower()) for c, (v, _) in sorted(seeds[s].items()) if c != own)
        title = re.sub(r"^(Seed )?C\d\d\s*[-/ ]*\s*(seed\s*)?[\"']?[ab][\"']?\s*[-:—]*\s*", "", meta["title"], flags=re.I)
        t2.append("| %s | %s (`%s`) | %s | %s | %s |" % (
            s, clean(title, 70), ", ".join(os.path.basename(f) for f in meta["files_changed"]),
            ov[0].lower(), others or "-", clean(ov[1], 80)))
    d = open(os.path.join(V, "DESIGN.md")).read()
    for tag, t in (("mutant-matrix", t1), ("seed-matrix", t2)):
        a = d.index("<!-- BEGIN %s -->" % tag) + len("<!-- BEGIN %s -->" % tag)
        b = d.index("<!-- END %s -->" % tag)
        d = d[:a] + "\n" + "\n".join(t) + "\n" + d[b:]
    open(os.path.join(V, "DESIGN.md"), "w").write(d)
    nk = sum(1 for s in seeds if seeds[s].get(s[:3], ("",))[0] == "KILLED")
    print("mutants: %d rows (%d killed); seeds: %d (%d killed by own check)" %
          (len(mut), sum(1 for m in mut if m[2] == "KILLED"), len(seeds), nk))


if __name__ == "__main__":
    main()
