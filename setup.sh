#!/bin/sh
# Run once after a fresh restore, offline.  Nothing is fetched or pre-built:
# every check rebuilds libabt and the executor from /repo's working tree.
set -e
cd "$(dirname "$0")"
mkdir -p .cache evidence replays
/opt/veriftools/pyvenv/bin/python -c "import hypothesis, sys; print('hypothesis', hypothesis.__version__)"
gcc --version | head -1
clang --version | head -1
echo setup ok
