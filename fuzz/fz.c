/* libFuzzer targets for C20 (built three times with -DFZ_ATOI / -DFZ_AFFINITY /
 * -DFZ_CONFIG).  Every target carries its semantic oracle; counters, the number
 * of distinct non-trivial inputs and a few samples are written to $FZ_STATS. */
#include "abti.h"
#include <stdio.h>
#include <stdlib.h>
#include <string.h>
#include <stdint.h>
#include <limits.h>

static unsigned long n_exec, n_nontrivial_distinct, n_accept, n_reject, n_class[8];
static char samples[3][200];
static int nsamples;
#define HSIZE (1u << 20)
static uint64_t *hset;

static uint64_t fnv(const uint8_t *d, size_t n)
{
    uint64_t h = 1469598103934665603ull;
    for (size_t i = 0; i < n; i++)
        h = (h ^ d[i]) * 1099511628211ull;
    return h | 1;
}
static void note_nontrivial(const uint8_t *d, size_t n, const char *printable)
{
    uint64_t h = fnv(d, n);
    for (uint32_t i = (uint32_t)h & (HSIZE - 1), k = 0; k < 64; i = (i + 1) & (HSIZE - 1), k++) {
        if (hset[i] == h)
            return;
        if (hset[i] == 0) {
            hset[i] = h;
            n_nontrivial_distinct++;
            if (nsamples < 3 && printable) {
                snprintf(samples[nsamples], sizeof samples[0], "%s", printable);
                for (char *p = samples[nsamples]; *p; p++)
                    if (*p == '"' || *p == '\\' || *p < 32)
                        *p = '?';
                nsamples++;
            }
            return;
        }
    }
}
static void dump_stats(void)
{
    const char *p = getenv("FZ_STATS");
    if (!p)
        return;
    FILE *f = fopen(p, "w");
    if (!f)
        return;
    fprintf(f, "{\"executions\": %lu, \"distinct_nontrivial\": %lu, \"accepted\": %lu, "
               "\"rejected\": %lu, \"classes\": [%lu,%lu,%lu,%lu,%lu,%lu,%lu,%lu], \"samples\": [",
            n_exec, n_nontrivial_distinct, n_accept, n_reject, n_class[0], n_class[1], n_class[2],
            n_class[3], n_class[4], n_class[5], n_class[6], n_class[7]);
    for (int i = 0; i < nsamples; i++)
        fprintf(f, "%s\"%s\"", i ? ", " : "", samples[i]);
    fprintf(f, "]}\n");
    fclose(f);
}
#define FAIL(...)                                                              \
    do {                                                                       \
        fprintf(stderr, "ORACLE: " __VA_ARGS__);                               \
        fprintf(stderr, "\n");                                                 \
        dump_stats();                                                          \
        __builtin_trap();                                                      \
    } while (0)

int LLVMFuzzerInitialize(int *argc, char ***argv)
{
    (void)argc;
    (void)argv;
    hset = calloc(HSIZE, sizeof(uint64_t));
    atexit(dump_stats);
#ifdef FZ_CONFIG
    setenv("ABT_SET_AFFINITY", "0", 1);
    ABT_init(0, NULL);
#endif
    return 0;
}

/* bytes -> string over the alphabet the property quantifies over (first byte
 * selects raw or mapped mode) */
static size_t to_string(const uint8_t *data, size_t size, char *buf, size_t cap, const char *alpha)
{
    size_t na = strlen(alpha), n = 0;
    if (size == 0) {
        buf[0] = 0;
        return 0;
    }
    int raw = data[0] & 1;
    for (size_t i = 1; i < size && n + 1 < cap; i++) {
        char c = raw ? (char)data[i] : alpha[data[i] % na];
        if (c == 0)
            break;
        buf[n++] = c;
    }
    buf[n] = 0;
    return n;
}

/* ======================================================================= */
#ifdef FZ_ATOI
/* reference written from the documented behaviour: leading blanks, a run of
 * signs, digits, stop at the first other character; saturate; no digit = error */
static int ref_parse(const char *s, int *neg, unsigned __int128 *mag)
{
    while (*s == ' ' || *s == '\t' || *s == '\n' || *s == '\r')
        s++;
    *neg = 0;
    while (*s == '+' || *s == '-') {
        if (*s == '-')
            *neg = !*neg;
        s++;
    }
    if (*s < '0' || *s > '9')
        return 0;
    unsigned __int128 v = 0;
    const unsigned __int128 cap = ((unsigned __int128)1) << 100;
    while (*s >= '0' && *s <= '9') {
        if (v < cap)
            v = v * 10 + (unsigned)(*s - '0');
        s++;
    }
    *mag = v;
    return 1;
}
int LLVMFuzzerTestOneInput(const uint8_t *data, size_t size)
{
    char s[128];
    n_exec++;
    size_t n = to_string(data, size, s, sizeof s, " \t\n+-0123456789012345678999x,");
    int neg;
    unsigned __int128 mag = 0;
    int ok = ref_parse(s, &neg, &mag);
    int iv = 12345;
    uint32_t u32 = 12345;
    uint64_t u64 = 12345;
    size_t sz = 12345;
    ABT_bool o1 = 7, o2 = 7, o3 = 7, o4 = 7;
    int r1 = ABTU_atoi(s, &iv, &o1);
    int r2 = ABTU_atoui32(s, &u32, &o2);
    int r3 = ABTU_atoui64(s, &u64, &o3);
    int r4 = ABTU_atosz(s, &sz, &o4);
    if (!ok) {
        n_reject++;
        if (r1 != ABT_ERR_INV_ARG || r2 != ABT_ERR_INV_ARG || r3 != ABT_ERR_INV_ARG || r4 != ABT_ERR_INV_ARG)
            FAIL("'%s' has no integer but was accepted (%d %d %d %d)", s, r1, r2, r3, r4);
        return 0;
    }
    n_accept++;
    if (r1 != ABT_SUCCESS || r2 != ABT_SUCCESS || r3 != ABT_SUCCESS || r4 != ABT_SUCCESS)
        FAIL("'%s' is an integer but was rejected (%d %d %d %d)", s, r1, r2, r3, r4);
    /* int */
    {
        int exp, eo = 0;
        if (neg) {
            if (mag > (unsigned __int128)2147483648u) {
                exp = INT_MIN;
                eo = 1;
            } else {
                exp = (int)(-(int64_t)(uint64_t)mag);
            }
        } else if (mag > (unsigned __int128)INT_MAX) {
            exp = INT_MAX;
            eo = 1;
        } else {
            exp = (int)(uint64_t)mag;
        }
        if (iv != exp || (o1 != ABT_FALSE) != eo)
            FAIL("ABTU_atoi('%s') = %d overflow=%d, expected %d overflow=%d", s, iv, (int)o1, exp, eo);
    }
    {
        uint32_t exp;
        int eo = 0;
        if (neg) {
            exp = 0;
            eo = mag != 0;
        } else if (mag > (unsigned __int128)UINT32_MAX) {
            exp = UINT32_MAX;
            eo = 1;
        } else {
            exp = (uint32_t)(uint64_t)mag;
        }
        if (u32 != exp || (o2 != ABT_FALSE) != eo)
            FAIL("ABTU_atoui32('%s') = %u overflow=%d, expected %u overflow=%d", s, u32, (int)o2, exp, eo);
    }
    {
        uint64_t exp;
        int eo = 0;
        if (neg) {
            exp = 0;
            eo = mag != 0;
        } else if (mag > (unsigned __int128)UINT64_MAX) {
            exp = UINT64_MAX;
            eo = 1;
        } else {
            exp = (uint64_t)mag;
        }
        if (u64 != exp || (o3 != ABT_FALSE) != eo)
            FAIL("ABTU_atoui64('%s') = %lu overflow=%d, expected %lu overflow=%d", s, (unsigned long)u64,
                 (int)o3, (unsigned long)exp, eo);
        if (sz != (size_t)exp || (o4 != ABT_FALSE) != eo)
            FAIL("ABTU_atosz('%s') = %zu overflow=%d, expected %zu overflow=%d", s, sz, (int)o4,
                 (size_t)exp, eo);
    }
    /* non-trivial: a value within 1 of a type limit */
    const unsigned __int128 lim[] = { INT_MAX, 2147483648u, UINT32_MAX, (unsigned __int128)UINT64_MAX };
    for (int i = 0; i < 4; i++)
        if (mag + 1 >= lim[i] && mag <= lim[i] + 1) {
            n_class[i]++;
            note_nontrivial((const uint8_t *)s, n, s);
        }
    return 0;
}
#endif

/* ======================================================================= */
#ifdef FZ_AFFINITY
/* independent recursive-descent reference for the documented grammar.  Values
 * are computed in 64 bits; 'wide' is set when a token or a derived id leaves
 * the int range (then only "no crash / no UB" is required). */
typedef struct {
    const char *s;
    int pos;
    int wide, unspecified, nested;
} P;
static void ws(P *p)
{
    while (p->s[p->pos] == ' ' || p->s[p->pos] == '\t' || p->s[p->pos] == '\r' || p->s[p->pos] == '\n')
        p->pos++;
}
static int sym(P *p, char c)
{
    int save = p->pos;
    ws(p);
    if (p->s[p->pos] == c) {
        if (c)
            p->pos++;
        return 1;
    }
    p->pos = save;
    return 0;
}
static int integer(P *p, int64_t *v)
{
    int save = p->pos;
    ws(p);
    int neg = 0, signs = 0;
    while (p->s[p->pos] == '+' || p->s[p->pos] == '-') {
        if (p->s[p->pos] == '-')
            neg = !neg;
        p->pos++;
        signs++;
    }
    if (p->s[p->pos] < '0' || p->s[p->pos] > '9') {
        /* blanks between a sign and the digits: the documentation is silent */
        if (signs) {
            int q = p->pos;
            while (p->s[q] == ' ' || p->s[q] == '\t' || p->s[q] == '\r' || p->s[q] == '\n')
                q++;
            if (q != p->pos && ((p->s[q] >= '0' && p->s[q] <= '9') || p->s[q] == '+' || p->s[q] == '-'))
                p->unspecified = 1;
        }
        p->pos = save;
        return 0;
    }
    int64_t x = 0;
    while (p->s[p->pos] >= '0' && p->s[p->pos] <= '9') {
        if (x < ((int64_t)1 << 50))
            x = x * 10 + (p->s[p->pos] - '0');
        p->pos++;
    }
    if (x > INT_MAX) {
        p->wide = 1;
        x = (int64_t)INT_MAX + 1; /* keeps the reference's own 64-bit arithmetic in range */
    }
    *v = neg ? -x : x;
    return 1;
}
#define MAXIDS 4096
typedef struct {
    int n;
    int64_t ids[64];
} IdList;
static IdList g_lists[MAXIDS];
static int g_nlists;
static int too_big;

static int interval_tail(P *p, int64_t *num, int64_t *stride)
{
    *num = 1;
    *stride = 1;
    if (sym(p, ':')) {
        if (!integer(p, num) || *num <= 0)
            return 0;
        if (sym(p, ':'))
            if (!integer(p, stride))
                return 0;
    }
    return 1;
}
static int es_id_list(P *p, IdList *out)
{
    int64_t v;
    out->n = 0;
    if (integer(p, &v)) {
        out->ids[out->n++] = v;
        return 1;
    }
    if (!sym(p, '{'))
        return 0;
    p->nested = 1;
    for (;;) {
        int64_t id, num, stride;
        if (!integer(p, &id))
            return 0;
        if (!interval_tail(p, &num, &stride))
            return 0;
        if (num >= 1024 * 1024 - 64)
            p->unspecified = 1; /* undocumented size limit of the implementation */
        {
            int64_t last = id + stride * (num - 1);
            if (last > INT_MAX || last < INT_MIN)
                p->wide = 1;
        }
        for (int64_t i = 0; i < num; i++) {
            int64_t x = id + stride * i;
            if (x > INT_MAX || x < INT_MIN)
                p->wide = 1;
            if (out->n < 64)
                out->ids[out->n++] = x;
            else
                too_big = 1;
            if (i > 70)
                break;
        }
        if (num > 64)
            too_big = 1;
        if (sym(p, ','))
            continue;
        return sym(p, '}');
    }
}
static int ref_list(P *p)
{
    g_nlists = 0;
    too_big = 0;
    for (;;) {
        IdList base;
        int64_t num, stride;
        if (!es_id_list(p, &base))
            return 0;
        if (!interval_tail(p, &num, &stride))
            return 0;
        if (num >= 1024 * 1024 - 64)
            p->unspecified = 1;
        for (int j = 0; j < base.n; j++) {
            int64_t last = base.ids[j] + stride * (num - 1);
            if (last > INT_MAX || last < INT_MIN)
                p->wide = 1;
        }
        for (int64_t i = 0; i < num; i++) {
            if (g_nlists < MAXIDS) {
                IdList *l = &g_lists[g_nlists++];
                l->n = base.n;
                for (int j = 0; j < base.n; j++) {
                    l->ids[j] = base.ids[j] + stride * i;
                    if (l->ids[j] > INT_MAX || l->ids[j] < INT_MIN)
                        p->wide = 1;
                }
            } else {
                too_big = 1;
                break;
            }
        }
        if (sym(p, ','))
            continue;
        return sym(p, '\0');
    }
}
int LLVMFuzzerTestOneInput(const uint8_t *data, size_t size)
{
    char s[160];
    n_exec++;
    size_t n = to_string(data, size, s, sizeof s, "0123456789012345{}{}:::,,,+- \t12");
    P p = { s, 0, 0, 0, 0 };
    int ref_ok = ref_list(&p);
    ABTD_affinity_list *l = NULL;
    int rc = ABTD_affinity_list_create(s, &l);
    if (p.unspecified) {
        if (rc == ABT_SUCCESS)
            ABTD_affinity_list_free(l);
        return 0;
    }
    if (p.wide) {
        /* integers outside int: must neither crash nor overflow; verdict free */
        if (rc == ABT_SUCCESS)
            ABTD_affinity_list_free(l);
        n_class[3]++;
        return 0;
    }
    if (ref_ok != (rc == ABT_SUCCESS))
        FAIL("'%s': grammar says %s, parser returned %d", s, ref_ok ? "valid" : "invalid", rc);
    if (!ref_ok) {
        n_reject++;
        return 0;
    }
    n_accept++;
    if (!too_big) {
        if ((int)l->num != g_nlists)
            FAIL("'%s': %u CPU-id lists, expected %d", s, l->num, g_nlists);
        for (int i = 0; i < g_nlists; i++) {
            if ((int)l->p_id_lists[i]->num != g_lists[i].n)
                FAIL("'%s': list %d has %u ids, expected %d", s, i, l->p_id_lists[i]->num, g_lists[i].n);
            for (int j = 0; j < g_lists[i].n; j++)
                if (l->p_id_lists[i]->ids[j] != (int)g_lists[i].ids[j])
                    FAIL("'%s': list %d id %d is %d, expected %ld", s, i, j, l->p_id_lists[i]->ids[j],
                         (long)g_lists[i].ids[j]);
        }
    }
    ABTD_affinity_list_free(l);
    if (p.nested) {
        n_class[0]++;
        note_nontrivial((const uint8_t *)s, n, s);
    }
    return 0;
}
#endif

/* ======================================================================= */
#ifdef FZ_CONFIG
/* ABT_sched_config / ABT_pool_config against a reference map */
#define MAXK 64
typedef struct {
    int used, key, type;
    union {
        int i;
        double d;
        void *p;
    } v;
} Ent;
static Ent ref[MAXK];
static Ent *ref_find(int key)
{
    for (int i = 0; i < MAXK; i++)
        if (ref[i].used && ref[i].key == key)
            return &ref[i];
    return NULL;
}
static void ref_set(int key, int type, int iv, double dv, void *pv)
{
    Ent *e = ref_find(key);
    if (!e)
        for (int i = 0; i < MAXK; i++)
            if (!ref[i].used) {
                e = &ref[i];
                break;
            }
    if (!e)
        return;
    e->used = 1;
    e->key = key;
    e->type = type;
    if (type == 0)
        e->v.i = iv;
    else if (type == 1)
        e->v.d = dv;
    else
        e->v.p = pv;
}
static const int keys[] = { 0, 1, 2, 3, 7, 8, 9, 15, 16, 17, 24, 64, 65, -2, -3, -8, -9, -16, 1000, 1008,
                            -1000, 2147483647, -2147483647, 1024, 4096, 5, 13, 21, 29, 37 };
#define NKEYS ((int)(sizeof keys / sizeof keys[0]))

int LLVMFuzzerTestOneInput(const uint8_t *data, size_t size)
{
    n_exec++;
    if (size < 2)
        return 0;
    int is_pool = data[0] & 1;
    memset(ref, 0, sizeof ref);
    ABT_sched_config sc = ABT_SCHED_CONFIG_NULL;
    ABT_pool_config pc = ABT_POOL_CONFIG_NULL;
    size_t i = 1;
    int rc, deleted_chained = 0, nset = 0;
    if (is_pool) {
        rc = ABT_pool_config_create(&pc);
        if (rc != ABT_SUCCESS)
            FAIL("ABT_pool_config_create %d", rc);
    } else {
        /* fixed-arity templates of the variadic constructor */
        int tmpl = data[i++ % size] % 4;
        ABT_sched_config_var v1 = { keys[data[i++ % size] % NKEYS], ABT_SCHED_CONFIG_INT };
        ABT_sched_config_var v2 = { keys[data[i++ % size] % NKEYS], ABT_SCHED_CONFIG_DOUBLE };
        ABT_sched_config_var v3 = { keys[data[i++ % size] % NKEYS], ABT_SCHED_CONFIG_PTR };
        if (v1.idx == ABT_sched_config_var_end.idx)
            v1.idx = 3;
        if (v2.idx == ABT_sched_config_var_end.idx)
            v2.idx = 4;
        if (v3.idx == ABT_sched_config_var_end.idx)
            v3.idx = 5;
        if (tmpl == 0) {
            rc = ABT_sched_config_create(&sc, ABT_sched_config_var_end);
        } else if (tmpl == 1) {
            rc = ABT_sched_config_create(&sc, v1, 11, ABT_sched_config_var_end);
            ref_set(v1.idx, 0, 11, 0, NULL);
        } else if (tmpl == 2) {
            rc = ABT_sched_config_create(&sc, v1, 11, v2, 2.5, ABT_sched_config_var_end);
            ref_set(v1.idx, 0, 11, 0, NULL);
            ref_set(v2.idx, 1, 0, 2.5, NULL);
        } else {
            rc = ABT_sched_config_create(&sc, v1, 11, v2, 2.5, v3, (void *)ref, ABT_sched_config_var_end);
            ref_set(v1.idx, 0, 11, 0, NULL);
            ref_set(v2.idx, 1, 0, 2.5, NULL);
            ref_set(v3.idx, 2, 0, 0, (void *)ref);
        }
        if (rc != ABT_SUCCESS)
            FAIL("ABT_sched_config_create %d", rc);
    }
    while (i + 2 < size) {
        int op = data[i] % 4, key = keys[data[i + 1] % NKEYS], val = data[i + 2];
        i += 3;
        int type = val % 3;
        if (op <= 1) { /* set */
            int iv = val * 7 - 300;
            double dv = val * 0.25 - 3;
            void *pv = (void *)&keys[val % NKEYS];
            const void *vp = type == 0 ? (void *)&iv : type == 1 ? (void *)&dv : (void *)&pv;
            rc = is_pool ? ABT_pool_config_set(pc, key, (ABT_pool_config_type)type, vp)
                         : ABT_sched_config_set(sc, key, (ABT_sched_config_type)type, vp);
            if (rc != ABT_SUCCESS)
                FAIL("config_set(key %d) returned %d", key, rc);
            ref_set(key, type, iv, dv, pv);
            nset++;
        } else if (op == 2) { /* delete */
            Ent *e = ref_find(key);
            /* non-trivial: deleting a key while >= 2 other live keys share its bucket */
            int same = 0;
            for (int k = 0; k < MAXK; k++)
                if (ref[k].used && ref[k].key != key && ((unsigned)ref[k].key % 8u) == ((unsigned)key % 8u))
                    same++;
            if (e && same >= 2)
                deleted_chained = 1;
            rc = is_pool ? ABT_pool_config_set(pc, key, ABT_POOL_CONFIG_INT, NULL)
                         : ABT_sched_config_set(sc, key, ABT_SCHED_CONFIG_INT, NULL);
            if (rc != ABT_SUCCESS)
                FAIL("config delete(key %d) returned %d", key, rc);
            if (e)
                e->used = 0;
        }
        /* after every step: get of the touched key */
        {
            Ent *e = ref_find(key);
            int gt = -1;
            union {
                int i;
                double d;
                void *p;
                char pad[16];
            } gv;
            memset(&gv, 0x5a, sizeof gv);
            rc = is_pool ? ABT_pool_config_get(pc, key, (ABT_pool_config_type *)&gt, &gv)
                         : ABT_sched_config_get(sc, key, (ABT_sched_config_type *)&gt, &gv);
            if (!e) {
                if (rc != ABT_ERR_INV_ARG)
                    FAIL("get of absent key %d returned %d", key, rc);
            } else {
                if (rc != ABT_SUCCESS)
                    FAIL("get of present key %d returned %d", key, rc);
                if (gt != e->type)
                    FAIL("key %d: type %d, expected %d", key, gt, e->type);
                if ((e->type == 0 && gv.i != e->v.i) || (e->type == 1 && gv.d != e->v.d) ||
                    (e->type == 2 && gv.p != e->v.p))
                    FAIL("key %d: wrong value read back", key);
            }
        }
    }
    /* final sweep over all keys ever used */
    for (int k = 0; k < NKEYS; k++) {
        Ent *e = ref_find(keys[k]);
        int gt = -1;
        char gv[16];
        rc = is_pool ? ABT_pool_config_get(pc, keys[k], (ABT_pool_config_type *)&gt, gv)
                     : ABT_sched_config_get(sc, keys[k], (ABT_sched_config_type *)&gt, gv);
        if ((e != NULL) != (rc == ABT_SUCCESS))
            FAIL("final sweep: key %d %s in the reference but get returned %d", keys[k],
                 e ? "is" : "is not", rc);
    }
    if (!is_pool) {
        /* ABT_sched_config_read reads indices 0..n-1 into caller-typed storage */
        union {
            int i;
            double d;
            void *p;
            char raw[16];
        } a;
        memset(&a, 0x3c, sizeof a);
        rc = ABT_sched_config_read(sc, 2, &a, NULL);
        if (rc != ABT_SUCCESS)
            FAIL("ABT_sched_config_read %d", rc);
        Ent *e0 = ref_find(0);
        if (e0 && ((e0->type == 0 && a.i != e0->v.i) || (e0->type == 1 && a.d != e0->v.d) ||
                   (e0->type == 2 && a.p != e0->v.p)))
            FAIL("ABT_sched_config_read index 0 gave a wrong value");
        if (!e0 && a.raw[0] != 0x3c)
            FAIL("ABT_sched_config_read wrote an absent index");
    }
    rc = is_pool ? ABT_pool_config_free(&pc) : ABT_sched_config_free(&sc);
    if (rc != ABT_SUCCESS)
        FAIL("config free %d", rc);
    if (deleted_chained) {
        n_class[0]++;
        note_nontrivial(data, size, NULL);
    }
    if (nset >= 3)
        n_class[1]++;
    return 0;
}
#endif
