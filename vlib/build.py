"""Build libabt flavours and the executor from the *current working tree* of
the repository (VERIF_REPO, default /repo).  Nothing is cached across
invocations of a check: every call re-syncs the sources and recompiles."""
import os, re, shutil, subprocess, sys, hashlib, time
from concurrent.futures import ThreadPoolExecutor

VERIF = os.path.dirname(os.path.dirname(os.path.abspath(__file__)))
REPO = os.environ.get("VERIF_REPO", "/repo")
CACHE = os.environ.get("VERIF_CACHE", os.path.join(VERIF, ".cache"))

WRAPS = ["pthread_mutex_init", "pthread_mutex_lock", "pthread_mutex_trylock",
         "pthread_mutex_unlock", "pthread_mutex_destroy", "pthread_cond_init",
         "pthread_cond_destroy", "pthread_cond_wait", "pthread_cond_timedwait",
         "pthread_cond_signal", "pthread_cond_broadcast", "pthread_barrier_init",
         "pthread_barrier_wait", "pthread_barrier_destroy", "pthread_create",
         "pthread_join", "clock_gettime", "nanosleep", "time", "syscall",
         "sched_yield"]
ALLOC_WRAPS = ["malloc", "calloc", "realloc", "free", "posix_memalign", "mmap",
               "munmap"]

# blocking / OS calls libabt is known to use; anything else that can block
# makes the instrumented build fail loudly instead of deadlocking the harness
KNOWN_EXTERNALS_RE = None

SAN = ["-fsanitize=address,undefined", "--param", "asan-stack=0",
       "-fno-sanitize-recover=undefined", "-fno-omit-frame-pointer"]

FLAVOURS = {
    # name: (cc, cflags, use_vhook, config edits, link flags)
    "coarse": ("gcc", ["-O2", "-g"], True, [], []),
    "ubassert": ("gcc", ["-O2", "-g"], True, ["-ABT_CONFIG_DISABLE_UB_ASSERT"], []),
    "fine": ("clang", ["-O1", "-g", "-fsanitize=thread", "-mllvm",
                       "-tsan-instrument-func-entry-exit=0"], False, [], []),
    "san": ("gcc", ["-O1", "-g"] + SAN, True, [], SAN),
    "nopool": ("gcc", ["-O1", "-g"] + SAN, True, ["-ABT_CONFIG_USE_MEM_POOL"], SAN),
    "native": ("gcc", ["-O2", "-g"], False, [], []),
    "nativesan": ("gcc", ["-O1", "-g"] + SAN, False, [], SAN),
}


def run(cmd, **kw):
    p = subprocess.run(cmd, stdout=subprocess.PIPE, stderr=subprocess.STDOUT,
                       text=True, **kw)
    return p.returncode, p.stdout


def sync_tree(flavour, edits):
    """Copy REPO/src into the cache and produce abt.h / abt_config.h."""
    tree = os.path.join(CACHE, "tree-" + flavour)
    os.makedirs(tree, exist_ok=True)
    rc, out = run(["rsync", "-a", "--delete", "--exclude=*.o", "--exclude=*.lo",
                   "--exclude=*.la", "--exclude=.libs", "--exclude=.deps",
                   "--exclude=.dirstamp",
                   os.path.join(REPO, "src") + "/", os.path.join(tree, "src") + "/"])
    if rc != 0:
        raise RuntimeError("rsync failed: " + out)
    inc = os.path.join(tree, "src", "include")
    # abt.h is generated from abt.h.in by configure (five substitutions)
    src = open(os.path.join(inc, "abt.h.in")).read()
    subst = {"ABT_VERSION": "1.2rc1", "ABT_NUMVERSION": "10200201",
             "ABT_DEPRECATED": "__attribute__((deprecated))",
             "ABT_ENABLE_VER_20_API": "0", "ABT_NULL": "0"}
    old = os.path.join(REPO, "src", "include", "abt.h")
    if os.path.exists(old):
        o = open(old).read()
        m = re.search(r'#define ABT_VERSION "([^"]*)"', o)
        if m: subst["ABT_VERSION"] = m.group(1)
        m = re.search(r'#define ABT_NUMVERSION (\d+)', o)
        if m: subst["ABT_NUMVERSION"] = m.group(1)
        m = re.search(r'#define ABT_ENABLE_VER_20_API_VAL (\d+)', o)
        if m: subst["ABT_ENABLE_VER_20_API"] = m.group(1)
    for k, v in subst.items():
        src = src.replace("@" + k + "@", v)
    with open(os.path.join(inc, "abt.h"), "w") as f:
        f.write(src)
    cfg = os.path.join(inc, "abt_config.h")
    if not os.path.exists(cfg):
        shutil.copy(os.path.join(VERIF, "inst", "abt_config.default.h"), cfg)
    if edits:
        c = open(cfg).read()
        for e in edits:
            if e.startswith("-"):
                c = re.sub(r"^#define %s\b.*$" % re.escape(e[1:]),
                           "/* #undef %s (verif flavour) */" % e[1:], c, flags=re.M)
            elif e.startswith("+"):
                name = e[1:].split("=")[0]
                val = e[1:].split("=")[1] if "=" in e else "1"
                c = re.sub(r"^/\* #undef %s \*/$" % re.escape(name),
                           "#define %s %s" % (name, val), c, flags=re.M)
        with open(cfg, "w") as f:
            f.write(c)
    return tree


def lib_sources(tree):
    out = []
    src = os.path.join(tree, "src")
    for d in ["", "arch", "mem", "pool", "sched", "util"]:
        dd = os.path.join(src, d)
        for fn in sorted(os.listdir(dd)):
            if fn.endswith(".c"):
                out.append(os.path.join(d, fn))
    return out


def build_flavour(flavour, exec_sources=("abtx.c", "envmode.c", "mempool.c", "faults.c"), extra_defs=(), quiet=True,
                  extra_edits=(), name=None):
    """Returns (path to executor binary, info dict).  Raises on build failure."""
    t0 = time.time()
    cc, cflags, vhook, edits, ldflags = FLAVOURS[flavour]
    name = name or flavour
    tree = sync_tree(name, list(edits) + list(extra_edits))
    obj = os.path.join(CACHE, "obj-" + name)
    shutil.rmtree(obj, ignore_errors=True)
    os.makedirs(obj)
    inc = os.path.join(tree, "src", "include")
    base = [cc] + cflags + ["-DHAVE_CONFIG_H", "-I" + inc, "-Wno-error", "-w"]
    dsched = flavour not in ("native", "nativesan")
    if vhook:
        base += ["-DABT_VERIF_DSCHED", "-include", os.path.join(VERIF, "inst", "vhook.h")]
    jobs = []
    objs = []
    for s in lib_sources(tree):
        o = os.path.join(obj, s.replace("/", "_")[:-2] + ".o")
        objs.append(o)
        jobs.append(base + ["-c", os.path.join(tree, "src", s), "-o", o])
    o = os.path.join(obj, "fctx.o")
    objs.append(o)
    jobs.append(["gcc", "-c", "-DHAVE_CONFIG_H", "-I" + inc,
                 os.path.join(tree, "src", "arch", "fcontext",
                              "fcontext_x86_64_sysv_elf_gas.S"), "-o", o])
    # harness objects (never instrumented)
    hcc = "gcc"
    hflags = ["-O1", "-g", "-I" + inc, "-I" + os.path.join(VERIF, "inst"),
              "-I" + os.path.join(VERIF, "exec"), "-DVFLAVOUR=\"%s\"" % flavour,
              "-Wall", "-Wno-unused-function", "-Wno-deprecated-declarations"] + \
        ["-D" + d for d in extra_defs]
    hobjs = []
    for s in ["inst/dsched.c", "inst/wrap_alloc.c"] + (["inst/tsanrt.c"] if flavour == "fine" else []) + \
            ["exec/" + e for e in exec_sources]:
        p = os.path.join(VERIF, s)
        if not os.path.exists(p):
            continue
        o = os.path.join(obj, "h_" + os.path.basename(s)[:-2] + ".o")
        hobjs.append(o)
        jobs.append([hcc] + hflags + ["-c", p, "-o", o])
    for s in ["exec/canary.S"]:
        p = os.path.join(VERIF, s)
        if os.path.exists(p):
            o = os.path.join(obj, "h_canary.o")
            hobjs.append(o)
            jobs.append(["gcc", "-c", p, "-o", o])

    def one(cmd):
        return cmd, run(cmd)
    errs = []
    with ThreadPoolExecutor(max_workers=int(os.environ.get("VERIF_JOBS", "16"))) as ex:
        for cmd, (rc, out) in ex.map(one, jobs):
            if rc != 0:
                errs.append(" ".join(cmd) + "\n" + out)
    if errs:
        raise RuntimeError("compile failed:\n" + "\n".join(errs[:3]))
    exe = os.path.join(obj, "abtx")
    link = ["gcc" if cc == "gcc" else "clang"] + ldflags + ["-o", exe] + hobjs + objs
    link += ["-Wl,--wrap=" + w for w in WRAPS]
    if os.path.exists(os.path.join(VERIF, "inst", "wrap_alloc.c")):
        link += ["-Wl,--wrap=" + w for w in ALLOC_WRAPS]
    link += ["-lpthread", "-lm", "-lrt", "-ldl"]
    rc, out = run(link)
    if rc != 0:
        raise RuntimeError("link failed:\n" + out[-3000:])
    # make sure no unknown blocking primitive crept into libabt
    check_externals(objs)
    return exe, {"flavour": flavour, "build_s": round(time.time() - t0, 2), "tree": tree}


def build_lib_objects(name, cc, cflags, edits=()):
    """Compile only libabt (no harness) with the given compiler flags; returns
    (list of object files, include dir)."""
    tree = sync_tree(name, list(edits))
    obj = os.path.join(CACHE, "obj-" + name)
    shutil.rmtree(obj, ignore_errors=True)
    os.makedirs(obj)
    inc = os.path.join(tree, "src", "include")
    base = [cc] + list(cflags) + ["-DHAVE_CONFIG_H", "-I" + inc, "-w"]
    jobs, objs = [], []
    for s in lib_sources(tree):
        o = os.path.join(obj, s.replace("/", "_")[:-2] + ".o")
        objs.append(o)
        jobs.append(base + ["-c", os.path.join(tree, "src", s), "-o", o])
    o = os.path.join(obj, "fctx.o")
    objs.append(o)
    jobs.append(["gcc", "-c", "-DHAVE_CONFIG_H", "-I" + inc,
                 os.path.join(tree, "src", "arch", "fcontext",
                              "fcontext_x86_64_sysv_elf_gas.S"), "-o", o])
    errs = []
    with ThreadPoolExecutor(max_workers=int(os.environ.get("VERIF_JOBS", "16"))) as ex:
        for cmd, (rc, out) in ex.map(lambda c: (c, run(c)), jobs):
            if rc != 0:
                errs.append(" ".join(cmd) + "\n" + out)
    if errs:
        raise RuntimeError("compile failed:\n" + "\n".join(errs[:3]))
    return objs, inc, obj


ALLOWED_UNDEF = set("""
abort calloc free malloc realloc posix_memalign mmap munmap mprotect memcpy memset
memmove memcmp strlen strcmp strncmp strcpy strncpy strcat strtol strtod strdup strchr
fprintf printf fputs fputc fwrite fflush puts putchar sprintf snprintf vfprintf vsnprintf
stderr stdout getenv sysconf getpagesize
pthread_self pthread_create pthread_join pthread_mutex_init pthread_mutex_lock
pthread_mutex_unlock pthread_mutex_destroy pthread_cond_init pthread_cond_destroy
pthread_cond_wait pthread_cond_timedwait pthread_cond_signal pthread_cond_broadcast
pthread_barrier_init pthread_barrier_wait pthread_barrier_destroy
pthread_getaffinity_np pthread_setaffinity_np pthread_key_create pthread_getspecific
pthread_setspecific pthread_key_delete pthread_attr_init pthread_attr_destroy
pthread_attr_setstack pthread_attr_setstacksize pthread_equal pthread_mutex_trylock
clock_gettime nanosleep time syscall gettimeofday sched_yield
__assert_fail __stack_chk_fail __errno_location __ctype_b_loc dl_iterate_phdr
fopen fclose fread fgets fscanf sscanf __isoc99_sscanf __isoc99_fscanf getline
madvise shmget shmat shmdt shmctl open close read write unlink
__fprintf_chk __printf_chk __sprintf_chk __snprintf_chk __vfprintf_chk __memcpy_chk
__memset_chk __strcpy_chk __strcat_chk __vsnprintf_chk __strncpy_chk
_GLOBAL_OFFSET_TABLE_ __tls_get_addr vsp sigaction sigemptyset sigaddset raise kill getpid
usleep sleep exit _exit atoi atol strtoul strtoull strtoll qsort rand srand rand_r
floor ceil sqrt log pow bcmp localtime strcasecmp init_and_jump_with_call_fcontext init_and_switch_fcontext init_and_switch_with_call_fcontext switch_with_call_fcontext
""".split())


def check_externals(objs):
    rc, out = run(["nm", "-u"] + objs)
    unk = set()
    for line in out.splitlines():
        parts = line.split()
        if len(parts) == 2 and parts[0] == "U":
            s = parts[1].split("@")[0]
            if s.startswith(("ABT", "__tsan", "__asan", "__ubsan", "__sanitizer",
                             "__wrap", "__real", "lp_ABT", "gp_ABT", "g_ABT",
                             "make_fcontext", "jump_fcontext", "take_fcontext",
                             "init_and_call_fcontext", "switch_fcontext",
                             "peek_fcontext", "call_fcontext", "jump_",
                             "__atomic", "__sync", "__builtin", "__gcov", "__llvm")):
                continue
            if s not in ALLOWED_UNDEF:
                unk.add(s)
    if unk:
        sys.stderr.write("verif: note: libabt references symbols the harness "
                         "does not know: %s\n" % " ".join(sorted(unk)))
    return unk


if __name__ == "__main__":
    for fl in sys.argv[1:]:
        exe, info = build_flavour(fl)
        print(exe, info)
