"""One Hypothesis campaign: property module x flavour x seed.  Writes a JSON
summary; never prints VIOLATION itself (the driver does, after merging)."""
import argparse, importlib, json, os, sys, time, traceback

VERIF = os.path.dirname(os.path.dirname(os.path.abspath(__file__)))
sys.path.insert(0, VERIF)

from hypothesis import given, settings, seed, HealthCheck, Phase, Verbosity
from vlib.runner import Executor, digest
from vlib import known


class HarnessProblem(BaseException):
    pass


def main():
    ap = argparse.ArgumentParser()
    ap.add_argument("prop")
    ap.add_argument("--exe", required=True)
    ap.add_argument("--flavour", required=True)
    ap.add_argument("--variant", default="")
    ap.add_argument("--seed", type=int, default=0)
    ap.add_argument("--examples", type=int, default=100)
    ap.add_argument("--tier", default="quick")
    ap.add_argument("--out", required=True)
    ap.add_argument("--budget", type=float, default=0.0,
                    help="soft wall-clock budget in seconds (stop generating, never a failure)")
    a = ap.parse_args()

    mod = importlib.import_module("gen." + a.prop.lower())
    ex = Executor(a.exe, wall_ms=getattr(mod, "WALL_MS", 20000), env=getattr(mod, "EXEC_ENV", None))
    kf = known.load(a.prop)
    S = {"evaluations": 0, "verdicts": {}, "nontrivial": set(), "samples": [],
         "stats": {}, "classes": {}, "max_steps": 0, "sum_steps": 0, "known_hits": {},
         "inconclusive": 0, "last_fail": None, "first_fail_t": 0, "harness": None, "excluded": 0}
    t0 = time.time()
    ctx = {"flavour": a.flavour, "tier": a.tier, "variant": a.variant,
           "native": a.flavour.startswith("native")}

    shrink_budget = 45.0 if a.tier == "quick" else 300.0

    def run_one(case):
        if S["last_fail"] is not None and time.time() - S["first_fail_t"] > shrink_budget:
            return  # stop shrinking: keep the smallest failing case found so far
        text = mod.render(case, ctx)
        res = ex.run(text)
        S["evaluations"] += 1
        S["verdicts"][res.verdict] = S["verdicts"].get(res.verdict, 0) + 1
        S["max_steps"] = max(S["max_steps"], res.steps)
        S["sum_steps"] += res.steps
        for k, v in res.stats.items():
            # counters are summed; keys "n:..." / "max_..." are maxima
            S["stats"][k] = max(S["stats"].get(k, 0), v) if k.startswith(("n:", "max_")) else \
                S["stats"].get(k, 0) + v
        if res.harness_problem():
            S["harness"] = {"case": text, "message": res.message()}
            raise HarnessProblem()
        if res.verdict == "timeout":
            S["inconclusive"] += 1
            return
        msg = None
        if res.failed():
            msg = res.message()
        else:
            j = mod.judge(text, res, ctx)
            if j:
                msg = "oracle: " + j
        if msg is None:
            for c in mod.classify(text, res, ctx):
                S["classes"][c] = S["classes"].get(c, 0) + 1
            if mod.nontrivial(text, res, ctx):
                d = digest(text)
                if d not in S["nontrivial"]:
                    S["nontrivial"].add(d)
                    if len(S["samples"]) < 3:
                        S["samples"].append(text)
            return
        hit = known.match(kf, a.prop, text, msg)
        if hit:
            S["known_hits"][hit] = S["known_hits"].get(hit, 0) + 1
            return
        if S["last_fail"] is None:
            S["first_fail_t"] = time.time()
        S["last_fail"] = {"case": text, "message": msg, "signature": res.signature()}
        raise AssertionError(msg)

    deadline = t0 + a.budget if a.budget > 0 else None

    @seed(a.seed)
    @settings(max_examples=a.examples, database=None, deadline=None,
              report_multiple_bugs=False, suppress_health_check=list(HealthCheck),
              phases=[Phase.generate, Phase.shrink], verbosity=Verbosity.quiet)
    @given(mod.cases(ctx))
    def campaign(case):
        if deadline and time.time() > deadline and S["last_fail"] is None:
            S["excluded"] += 1
            return
        run_one(case)

    failure = None
    try:
        campaign()
    except HarnessProblem:
        pass
    except AssertionError:
        failure = S["last_fail"]
    except Exception:
        if S["last_fail"] is not None:
            failure = S["last_fail"]
        else:
            S["harness"] = {"case": "", "message": traceback.format_exc()[-2000:]}

    confirmed = 0
    if failure:
        # the shrunk case must fail deterministically before it is reported
        ex.close()
        ex = Executor(a.exe, wall_ms=3 * getattr(mod, "WALL_MS", 20000), env=getattr(mod, "EXEC_ENV", None))
        for _ in range(10 if ctx["native"] else 3):
            r = ex.run(failure["case"])
            if r.failed() or (not r.harness_problem() and r.verdict != "timeout"
                              and mod.judge(failure["case"], r, ctx)):
                confirmed += 1
                if ctx["native"]:
                    break   # one reproduction under OS scheduling is enough
        failure["confirmed"] = confirmed
        failure["flavour"] = a.flavour
    ex.close()
    out = {"prop": a.prop, "flavour": a.flavour, "variant": a.variant, "seed": a.seed,
           "evaluations": S["evaluations"], "verdicts": S["verdicts"],
           "nontrivial": sorted(S["nontrivial"]), "samples": S["samples"],
           "stats": S["stats"], "classes": S["classes"], "max_steps": S["max_steps"],
           "sum_steps": S["sum_steps"], "known_hits": S["known_hits"],
           "inconclusive": S["inconclusive"], "failure": failure,
           "harness": S["harness"], "skipped_after_budget": S["excluded"],
           "wall_s": round(time.time() - t0, 2)}
    with open(a.out, "w") as f:
        json.dump(out, f)


if __name__ == "__main__":
    main()
