"""Talk to the abtx fork server and parse its result records."""
import os, subprocess, hashlib


class Result:
    __slots__ = ("verdict", "exit", "sig", "steps", "switches", "spins", "jumps", "ms",
                 "viol", "hang", "generr", "err", "stats", "hist", "notes")

    def __init__(self):
        self.verdict = "internal"
        self.exit = self.sig = 0
        self.steps = self.switches = self.spins = self.jumps = 0
        self.ms = 0.0
        self.viol = []
        self.hang = []
        self.generr = []
        self.err = []
        self.stats = {}
        self.hist = []
        self.notes = []

    def failed(self):
        """True if the run contradicts the property (as opposed to being
        inconclusive or a harness problem)."""
        return self.verdict in ("violation", "hang", "abort", "crash", "sanitizer")

    def harness_problem(self):
        return self.verdict in ("generr", "internal")

    def message(self):
        parts = [self.verdict]
        parts += self.viol[:2] + self.hang[:1] + self.generr[:1]
        if self.verdict in ("abort", "crash", "sanitizer", "internal"):
            keep = [l for l in self.err if "SUMMARY:" in l or "ERROR: " in l or "runtime error" in l or
                    "Assertion" in l or "free()" in l or "corrupt" in l]
            parts += keep[:3] if keep else self.err[-6:]
        return " | ".join(parts)

    def signature(self):
        """Stable short description used to match known findings."""
        import re
        if self.viol:
            s = self.viol[0]
        elif self.hang:
            s = "hang " + self.hang[0].split()[0]
        elif self.err:
            keep = [l for l in self.err if "Assertion" in l or "ERROR" in l or
                    "runtime error" in l or "free()" in l or "SUMMARY" in l or
                    "malloc" in l or "corrupt" in l]
            s = self.verdict + " " + (keep[0] if keep else self.err[-1])
        else:
            s = self.verdict
        return re.sub(r"0x[0-9a-f]+|\d+", "N", s)[:200]


class Executor:
    def __init__(self, exe, wall_ms=20000, env=None):
        e = dict(os.environ)
        e.setdefault("ASAN_OPTIONS", "exitcode=21:detect_leaks=1:allocator_may_return_null=1:detect_stack_use_after_return=0")
        e.setdefault("UBSAN_OPTIONS", "exitcode=21:print_stacktrace=1:halt_on_error=1")
        e.setdefault("LSAN_OPTIONS", "exitcode=21")
        if env:
            e.update(env)
        self.exe = exe
        self.p = subprocess.Popen([exe, "--wall=%d" % wall_ms], stdin=subprocess.PIPE,
                                  stdout=subprocess.PIPE, text=True, bufsize=1 << 16, env=e)

    def run(self, text):
        if not text.endswith("\n"):
            text += "\n"
        self.p.stdin.write(text + "END\n")
        self.p.stdin.flush()
        r = Result()
        while True:
            line = self.p.stdout.readline()
            if not line:
                r.verdict = "internal"
                r.err.append("executor died")
                return r
            tag = line[:2]
            body = line[2:].rstrip("\n")
            if tag == "V ":
                r.viol.append(body)
            elif tag == "H ":
                r.hang.append(body)
            elif tag == "G ":
                r.generr.append(body)
            elif tag == "E ":
                r.err.append(body)
            elif tag == "S ":
                k, v = body.rsplit(" ", 1)
                r.stats[k] = int(v)
            elif tag == "h ":
                r.hist.append(body.split())
            elif tag == "N ":
                r.notes.append(body)
            elif line.startswith("DONE "):
                for kvp in body.split()[1:] if False else line.split()[1:]:
                    k, v = kvp.split("=", 1)
                    if k == "verdict":
                        r.verdict = v
                    elif k == "ms":
                        r.ms = float(v)
                    elif k in ("exit", "sig", "steps", "switches", "spins", "jumps"):
                        setattr(r, k, int(v))
                return r

    def close(self):
        try:
            self.p.stdin.close()
            self.p.wait(timeout=5)
        except Exception:
            self.p.kill()


def digest(text):
    return hashlib.sha1(text.encode()).hexdigest()[:16]
