"""Known findings: genuine defects that were recorded instead of repaired.
Only entries with status "known" suppress a report, and only for failures whose
message AND case text match the entry; "fixed" entries suppress nothing."""
import json, os, re

VERIF = os.path.dirname(os.path.dirname(os.path.abspath(__file__)))
PATH = os.path.join(VERIF, "known_findings.json")


def load(prop=None):
    if not os.path.exists(PATH):
        return []
    with open(PATH) as f:
        d = json.load(f)
    return [e for e in d.get("findings", [])
            if e.get("status") == "known" and (prop is None or e.get("property") == prop)]


def match(entries, prop, case_text, message):
    for e in entries:
        if e.get("property") != prop:
            continue
        if e.get("match_message") and not re.search(e["match_message"], message, re.S):
            continue
        if e.get("match_case") and not re.search(e["match_case"], case_text, re.S):
            continue
        return e["id"]
    return None
