/* wrap_alloc.h: fault injector / resource ledger interface (see wrap_alloc.c) */
#ifndef WRAP_ALLOC_H
#define WRAP_ALLOC_H
#include <stddef.h>
enum {
    FI_MALLOC,
    FI_CALLOC,
    FI_REALLOC,
    FI_MEMALIGN,
    FI_MMAP,
    FI_PTHREAD_CREATE,
    FI_MUTEX_INIT,
    FI_COND_INIT,
    FI_BARRIER_INIT
};
void fi_arm(long k);
long fi_disarm(void);
int fi_fired(int *kind, size_t *size);
const char *fi_kind_name(int kind);
void fi_ledger_begin(void);
void fi_ledger_end(void);
long fi_ledger_live(void);
long fi_ledger_total(void);
long fi_ledger_overflow(void);
int fi_ledger_describe(char *buf, size_t n);
int fi_hook(int kind, void *obj, int phase);
#endif
