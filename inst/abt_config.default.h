/* src/include/abt_config.h.  Generated from abt_config.h.in by configure.  */
/* src/include/abt_config.h.in.  Generated from configure.ac by autoheader.  */


/* -*- Mode: C; c-basic-offset:4 ; indent-tabs-mode:nil ; -*- */
/*
 * See COPYRIGHT in top-level directory.
 */

#ifndef ABT_CONFIG_H_INCLUDED
#define ABT_CONFIG_H_INCLUDED


/* Define to 1 if we preserve fpu registers */
#define ABTD_FCONTEXT_PRESERVE_FPU 1

/* Define to enable the active wait policy */
/* #undef ABT_CONFIG_ACTIVE_WAIT_POLICY */

/* Define to set the default ULT stack size */
#define ABT_CONFIG_DEFAULT_THREAD_STACKSIZE 16384

/* Define to disable thread cancellation */
/* #undef ABT_CONFIG_DISABLE_CANCELLATION */

/* Define to disable error check */
/* #undef ABT_CONFIG_DISABLE_ERROR_CHECK */

/* Define to disable supporting external threads */
/* #undef ABT_CONFIG_DISABLE_EXT_THREAD */

/* Define to disable lazy stack allocation */
#define ABT_CONFIG_DISABLE_LAZY_STACK_ALLOC 1

/* Define to disable thread migration */
/* #undef ABT_CONFIG_DISABLE_MIGRATION */

/* Define to disable pool consumer check */
/* #undef ABT_CONFIG_DISABLE_POOL_CONSUMER_CHECK */

/* Define to disable pool producer check */
/* #undef ABT_CONFIG_DISABLE_POOL_PRODUCER_CHECK */

/* Define to disable the raw stack dump by default. */
/* #undef ABT_CONFIG_DISABLE_STACK_UNWIND_DUMP_RAW_STACK */

/* Define to use the tool interface */
#define ABT_CONFIG_DISABLE_TOOL_INTERFACE 1

/* Define to disable undefined-behavior assertion */
#define ABT_CONFIG_DISABLE_UB_ASSERT 1

/* Define to use the stack unwinding feature. */
/* #undef ABT_CONFIG_ENABLE_STACK_UNWIND */

/* Define to enable Argobots 2.0 API */
/* #undef ABT_CONFIG_ENABLE_VER_20_API */

/* Define to 1 if you have the `alignof' operator. */
/* #undef ABT_CONFIG_HAVE_ALIGNOF_C11 */

/* Define to 1 if you have the `__alignof__' operator. */
#define ABT_CONFIG_HAVE_ALIGNOF_GCC 1

/* Define if __atomic builtins are supported */
#define ABT_CONFIG_HAVE_ATOMIC_BUILTIN 1

/* Define if 128-bit CAS is supported. */
#define ABT_CONFIG_HAVE_ATOMIC_INT128 1

/* Define to enable printing abt_errno upon abt call error */
/* #undef ABT_CONFIG_PRINT_ABT_ERRNO */

/* Define the size of a stack canary when it is enabled */
#define ABT_CONFIG_STACK_CHECK_CANARY_SIZE 0

/* Define an algorithm of a stack overflow check */
#define ABT_CONFIG_STACK_CHECK_TYPE ABTI_STACK_CHECK_TYPE_NONE

/* Define to use static cache-line size */
#define ABT_CONFIG_STATIC_CACHELINE_SIZE 64

/* Define the default system huge page size detected at configure time */
#define ABT_CONFIG_SYS_HUGE_PAGE_SIZE 2097152

/* Define to allocate objects aligned to the cache line size */
#define ABT_CONFIG_USE_ALIGNED_ALLOC 1

/* Define to use clock_gettime */
#define ABT_CONFIG_USE_CLOCK_GETTIME 1

/* Define to enable debug logging */
/* #undef ABT_CONFIG_USE_DEBUG_LOG */

/* Define to discard debug log messages */
/* #undef ABT_CONFIG_USE_DEBUG_LOG_DISCARD */

/* Define to enable printing debug log messages */
/* #undef ABT_CONFIG_USE_DEBUG_LOG_PRINT */

/* Define to use fcontext */
#define ABT_CONFIG_USE_FCONTEXT 1

/* Define to use gettimeofday */
/* #undef ABT_CONFIG_USE_GETTIMEOFDAY */

/* Define if huge page is usable. */
/* #undef ABT_CONFIG_USE_HUGE_PAGE_DEFAULT */

/* Define to use Linux-type futex */
#define ABT_CONFIG_USE_LINUX_FUTEX 1

/* Define to use mach_absolute_time */
/* #undef ABT_CONFIG_USE_MACH_ABSOLUTE_TIME */

/* Define to use memory pools for ULT and tasklet creation */
#define ABT_CONFIG_USE_MEM_POOL 1

/* Define to make the scheduler sleep when its pools are empty */
/* #undef ABT_CONFIG_USE_SCHED_SLEEP */

/* Define to use an old yield-based mutex implementation */
/* #undef ABT_CONFIG_USE_SIMPLE_MUTEX */

/* Whether C compiler supports symbol visibility or not */
#define ABT_C_HAVE_VISIBILITY 1

/* Define to 1 if you have the <clh.h> header file. */
/* #undef HAVE_CLH_H */

/* Define to 1 if you have the `clock_gettime' function. */
#define HAVE_CLOCK_GETTIME 1

/* Define to 1 if you have the <dlfcn.h> header file. */
#define HAVE_DLFCN_H 1

/* Define to 1 if the system has the `deprecated' function attribute */
#define HAVE_FUNC_ATTRIBUTE_DEPRECATED 1

/* Define to 1 if the system has the `noreturn' function attribute */
#define HAVE_FUNC_ATTRIBUTE_NORETURN 1

/* Define to 1 if the system has the `warn_unused_result' function attribute
   */
#define HAVE_FUNC_ATTRIBUTE_WARN_UNUSED_RESULT 1

/* Define to 1 if you have the `getpagesize' function. */
#define HAVE_GETPAGESIZE 1

/* Define to 1 if you have the `gettimeofday' function. */
#define HAVE_GETTIMEOFDAY 1

/* Define to 1 if you have the <inttypes.h> header file. */
#define HAVE_INTTYPES_H 1

/* Define to 1 if you have the <lh_lock.h> header file. */
/* #undef HAVE_LH_LOCK_H */

/* Define to 1 if you have the `dl' library (-ldl). */
#define HAVE_LIBDL 1

/* Define to 1 if you have the `hugetlbfs' library (-lhugetlbfs). */
/* #undef HAVE_LIBHUGETLBFS */

/* Define to 1 if you have the `pthread' library (-lpthread). */
#define HAVE_LIBPTHREAD 1

/* Define to 1 if you have the `rt' library (-lrt). */
#define HAVE_LIBRT 1

/* Define to 1 if you have the `unwind' library (-lunwind). */
/* #undef HAVE_LIBUNWIND */

/* Define to 1 if you have the <libunwind.h> header file. */
/* #undef HAVE_LIBUNWIND_H */

/* Define to 1 if you have the `mach_absolute_time' function. */
/* #undef HAVE_MACH_ABSOLUTE_TIME */

/* Define if MAP_ANON is defined */
/* #undef HAVE_MAP_ANON */

/* Define if MAP_ANONYMOUS is defined */
#define HAVE_MAP_ANONYMOUS 1

/* Define if MAP_HUGETLB is supported */
#define HAVE_MAP_HUGETLB 1

/* Define to 1 if you have the `mprotect' function. */
#define HAVE_MPROTECT 1

/* Define to 1 if you have the `pthread_barrier_init' function. */
#define HAVE_PTHREAD_BARRIER_INIT 1

/* Define to 1 if you have the <pthread.h> header file. */
#define HAVE_PTHREAD_H 1

/* Define if pthread_setaffinity_np is available */
/* #undef HAVE_PTHREAD_SETAFFINITY_NP */

/* Define to 1 if you have the <stdint.h> header file. */
#define HAVE_STDINT_H 1

/* Define to 1 if you have the <stdio.h> header file. */
#define HAVE_STDIO_H 1

/* Define to 1 if you have the <stdlib.h> header file. */
#define HAVE_STDLIB_H 1

/* Define to 1 if you have the <strings.h> header file. */
#define HAVE_STRINGS_H 1

/* Define to 1 if you have the <string.h> header file. */
#define HAVE_STRING_H 1

/* Define to 1 if you have the <sys/stat.h> header file. */
#define HAVE_SYS_STAT_H 1

/* Define to 1 if you have the <sys/types.h> header file. */
#define HAVE_SYS_TYPES_H 1

/* Define to 1 if you have the <unistd.h> header file. */
#define HAVE_UNISTD_H 1

/* Define valgrind support */
/* #undef HAVE_VALGRIND_SUPPORT */

/* Define to 1 if the system has the `__builtin_expect' built-in function */
#define HAVE___BUILTIN_EXPECT 1

/* Define to 1 if the system has the `__builtin_unreachable' built-in function
   */
#define HAVE___BUILTIN_UNREACHABLE 1

/* Define to the sub-directory where libtool stores uninstalled libraries. */
#define LT_OBJDIR ".libs/"

/* Name of package */
#define PACKAGE "argobots"

/* Define to the address where bug reports for this package should be sent. */
#define PACKAGE_BUGREPORT ""

/* Define to the full name of this package. */
#define PACKAGE_NAME "argobots"

/* Define to the full name and version of this package. */
#define PACKAGE_STRING "argobots 1.2rc1"

/* Define to the one symbol short name of this package. */
#define PACKAGE_TARNAME "argobots"

/* Define to the home page for this package. */
#define PACKAGE_URL ""

/* Define to the version of this package. */
#define PACKAGE_VERSION "1.2rc1"

/* The size of `void *', as computed by sizeof. */
#define SIZEOF_VOID_P 8

/* Define to 1 if all of the C90 standard headers exist (not just the ones
   required in a freestanding environment). This macro is provided for
   backward compatibility; new code need not use it. */
#define STDC_HEADERS 1

/* Version number of package */
#define VERSION "1.2rc1"


#endif /* ABT_CONFIG_H_INCLUDED */

