/* Our own implementation of the ThreadSanitizer instrumentation ABI ("fine"
 * flavour): libabt is compiled with clang -fsanitize=thread but linked against
 * this file instead of the TSan runtime, so that every plain load/store of
 * non-stack memory and every atomic is a dsched scheduling point. */
#include <stdint.h>
#include <stddef.h>
#include "dsched.h"
void __tsan_init(void) {}
void __tsan_func_entry(void *pc) { (void)pc; }
void __tsan_func_exit(void) {}
void __tsan_vptr_update(void **a, void *b) { (void)a; (void)b; }
void __tsan_vptr_read(void **a) { (void)a; }
#define RD(n)                                                                  \
    void __tsan_read##n(void *a) { if (ds_fine) vsp(a, VK_PREAD); }            \
    void __tsan_unaligned_read##n(void *a) { if (ds_fine) vsp(a, VK_PREAD); }
#define WR(n)                                                                  \
    void __tsan_write##n(void *a) { if (ds_fine) vsp(a, VK_PWRITE); }          \
    void __tsan_unaligned_write##n(void *a) { if (ds_fine) vsp(a, VK_PWRITE); }
RD(1) RD(2) RD(4) RD(8) RD(16) WR(1) WR(2) WR(4) WR(8) WR(16)
void __tsan_read_range(void *a, unsigned long n) { (void)n; if (ds_fine) vsp(a, VK_PREAD); }
void __tsan_write_range(void *a, unsigned long n) { (void)n; if (ds_fine) vsp(a, VK_PWRITE); }
#define SC __ATOMIC_SEQ_CST
#define ATOM(bits, T)                                                          \
    T __tsan_atomic##bits##_load(const volatile T *a, int mo) { (void)mo; vsp(a, VK_ALOAD); return __atomic_load_n(a, SC); } \
    void __tsan_atomic##bits##_store(volatile T *a, T v, int mo) { (void)mo; vsp(a, VK_ASTORE); __atomic_store_n(a, v, SC); vsp(a, VK_POST); } \
    T __tsan_atomic##bits##_exchange(volatile T *a, T v, int mo) { (void)mo; vsp(a, VK_ARMW); T r = __atomic_exchange_n(a, v, SC); vsp(a, VK_POST); return r; } \
    T __tsan_atomic##bits##_fetch_add(volatile T *a, T v, int mo) { (void)mo; vsp(a, VK_ARMW); T r = __atomic_fetch_add(a, v, SC); vsp(a, VK_POST); return r; } \
    T __tsan_atomic##bits##_fetch_sub(volatile T *a, T v, int mo) { (void)mo; vsp(a, VK_ARMW); T r = __atomic_fetch_sub(a, v, SC); vsp(a, VK_POST); return r; } \
    T __tsan_atomic##bits##_fetch_and(volatile T *a, T v, int mo) { (void)mo; vsp(a, VK_ARMW); T r = __atomic_fetch_and(a, v, SC); vsp(a, VK_POST); return r; } \
    T __tsan_atomic##bits##_fetch_or(volatile T *a, T v, int mo) { (void)mo; vsp(a, VK_ARMW); T r = __atomic_fetch_or(a, v, SC); vsp(a, VK_POST); return r; } \
    T __tsan_atomic##bits##_fetch_xor(volatile T *a, T v, int mo) { (void)mo; vsp(a, VK_ARMW); T r = __atomic_fetch_xor(a, v, SC); vsp(a, VK_POST); return r; } \
    T __tsan_atomic##bits##_fetch_nand(volatile T *a, T v, int mo) { (void)mo; vsp(a, VK_ARMW); T r = __atomic_fetch_nand(a, v, SC); vsp(a, VK_POST); return r; } \
    T __tsan_atomic##bits##_compare_exchange_val(volatile T *a, T c, T v, int mo, int fmo) { (void)mo; (void)fmo; vsp(a, VK_ARMW); __atomic_compare_exchange_n(a, &c, v, 0, SC, SC); vsp(a, VK_POST); return c; } \
    int __tsan_atomic##bits##_compare_exchange_strong(volatile T *a, T *c, T v, int mo, int fmo) { (void)mo; (void)fmo; vsp(a, VK_ARMW); int r = __atomic_compare_exchange_n(a, c, v, 0, SC, SC); vsp(a, VK_POST); return r; } \
    int __tsan_atomic##bits##_compare_exchange_weak(volatile T *a, T *c, T v, int mo, int fmo) { (void)mo; (void)fmo; vsp(a, VK_ARMW); int r = __atomic_compare_exchange_n(a, c, v, 0, SC, SC); vsp(a, VK_POST); return r; }
ATOM(8, uint8_t) ATOM(16, uint16_t) ATOM(32, uint32_t) ATOM(64, uint64_t)
void __tsan_atomic_thread_fence(int mo) { (void)mo; __atomic_thread_fence(SC); }
void __tsan_atomic_signal_fence(int mo) { (void)mo; }
