/* wrap_alloc.c: allocation fault injector and resource ledger (C18).
 *
 * Linked into every executor with -Wl,--wrap=malloc,... so that each reference
 * to an allocation routine from libabt (and from the harness) comes through
 * here; libc-internal allocations (pthread stacks, stdio) do not.  The pthread
 * object constructors are wrapped by dsched.c, which reports them through
 * fi_hook().
 *
 * Fault plan: thread-local.  fi_arm(k) makes the k-th allocation event that the
 * calling thread performs from now on fail (k = 0: only count); fi_disarm()
 * returns how many events were seen.  Events: malloc, calloc, realloc,
 * posix_memalign, mmap, pthread_create, pthread_mutex_init, pthread_cond_init,
 * pthread_barrier_init.
 *
 * Ledger: between fi_ledger_begin() and fi_ledger_end() every block / mapping /
 * pthread object obtained through the wrappers by any thread is recorded and
 * removed again when it is released. */
#define _GNU_SOURCE
#include <errno.h>
#include <pthread.h>
#include <stddef.h>
#include <stdio.h>
#include <stdint.h>
#include <string.h>
#include <sys/mman.h>
#include "wrap_alloc.h"

void *__real_malloc(size_t);
void *__real_calloc(size_t, size_t);
void *__real_realloc(void *, size_t);
void __real_free(void *);
int __real_posix_memalign(void **, size_t, size_t);
void *__real_mmap(void *, size_t, int, int, int, off_t);
int __real_munmap(void *, size_t);

static __thread int t_armed;
static __thread long t_count, t_fail_at;
static __thread int t_fired, t_fired_kind;
static __thread size_t t_fired_size;

void fi_arm(long k)
{
    t_count = 0;
    t_fail_at = k;
    t_fired = 0;
    t_fired_kind = -1;
    t_fired_size = 0;
    t_armed = 1;
}
long fi_disarm(void)
{
    t_armed = 0;
    return t_count;
}
int fi_fired(int *kind, size_t *size)
{
    if (kind)
        *kind = t_fired_kind;
    if (size)
        *size = t_fired_size;
    return t_fired;
}
const char *fi_kind_name(int kind)
{
    static const char *n[] = { "malloc",         "calloc",
                               "realloc",        "posix_memalign",
                               "mmap",           "pthread_create",
                               "pthread_mutex_init", "pthread_cond_init",
                               "pthread_barrier_init" };
    return kind >= 0 && kind < (int)(sizeof n / sizeof n[0]) ? n[kind] : "?";
}
static int fail_now(int kind, size_t size)
{
    if (!t_armed)
        return 0;
    t_count++;
    if (t_count == t_fail_at) {
        t_fired = 1;
        t_fired_kind = kind;
        t_fired_size = size;
        return 1;
    }
    return 0;
}

/* ---- ledger ---------------------------------------------------------- */
#define LG 16
#define LN (1u << LG)
static struct {
    uintptr_t p; /* 0 empty, 1 tombstone */
    size_t size;
    int kind;
} L[LN];
static volatile int l_on;
static int l_lock;
static long l_live, l_total, l_overflow;

static void lk(void)
{
    while (__atomic_exchange_n(&l_lock, 1, __ATOMIC_ACQUIRE))
        while (__atomic_load_n(&l_lock, __ATOMIC_RELAXED))
            __builtin_ia32_pause();
}
static void ulk(void)
{
    __atomic_store_n(&l_lock, 0, __ATOMIC_RELEASE);
}
static unsigned hp(uintptr_t p)
{
    return (unsigned)((p * 0x9E3779B97F4A7C15ull) >> (64 - LG));
}
static void l_add(void *ptr, size_t size, int kind)
{
    if (!l_on || !ptr)
        return;
    lk();
    unsigned i = hp((uintptr_t)ptr), n = 0;
    while (L[i].p > 1 && n++ < LN)
        i = (i + 1) & (LN - 1);
    if (L[i].p > 1) {
        l_overflow++;
    } else {
        L[i].p = (uintptr_t)ptr;
        L[i].size = size;
        L[i].kind = kind;
        l_live++;
        l_total++;
    }
    ulk();
}
/* returns 1 if the pointer was in the ledger */
static int l_del(void *ptr)
{
    if (!l_on || !ptr)
        return 0;
    int found = 0;
    lk();
    unsigned i = hp((uintptr_t)ptr), n = 0;
    while (L[i].p != 0 && n++ < LN) {
        if (L[i].p == (uintptr_t)ptr) {
            L[i].p = 1;
            l_live--;
            found = 1;
            break;
        }
        i = (i + 1) & (LN - 1);
    }
    ulk();
    return found;
}
void fi_ledger_begin(void)
{
    memset(L, 0, sizeof L);
    l_live = l_total = l_overflow = 0;
    l_on = 1;
}
void fi_ledger_end(void)
{
    l_on = 0;
}
long fi_ledger_live(void)
{
    return l_live;
}
long fi_ledger_total(void)
{
    return l_total;
}
long fi_ledger_overflow(void)
{
    return l_overflow;
}
int fi_ledger_describe(char *buf, size_t n)
{
    size_t w = 0;
    int shown = 0;
    buf[0] = 0;
    lk();
    for (unsigned i = 0; i < LN && shown < 6; i++)
        if (L[i].p > 1) {
            int r = snprintf(buf + w, n - w, "%s(%zu) ", fi_kind_name(L[i].kind), L[i].size);
            w += (size_t)r;
            shown++;
            if (w + 40 > n)
                break;
        }
    ulk();
    return shown;
}

/* ---- wrappers -------------------------------------------------------- */
void *__wrap_malloc(size_t size)
{
    if (fail_now(FI_MALLOC, size)) {
        errno = ENOMEM;
        return NULL;
    }
    void *p = __real_malloc(size);
    l_add(p, size, FI_MALLOC);
    return p;
}
void *__wrap_calloc(size_t n, size_t size)
{
    if (fail_now(FI_CALLOC, n * size)) {
        errno = ENOMEM;
        return NULL;
    }
    void *p = __real_calloc(n, size);
    l_add(p, n * size, FI_CALLOC);
    return p;
}
void *__wrap_realloc(void *old, size_t size)
{
    if (fail_now(FI_REALLOC, size)) {
        errno = ENOMEM;
        return NULL; /* the old block stays valid */
    }
    int was = l_del(old);
    void *p = __real_realloc(old, size);
    if (p)
        l_add(p, size, FI_REALLOC);
    else if (was)
        l_add(old, 0, FI_REALLOC);
    return p;
}
void __wrap_free(void *p)
{
    l_del(p);
    __real_free(p);
}
int __wrap_posix_memalign(void **pp, size_t align, size_t size)
{
    if (fail_now(FI_MEMALIGN, size))
        return ENOMEM;
    int r = __real_posix_memalign(pp, align, size);
    if (r == 0)
        l_add(*pp, size, FI_MEMALIGN);
    return r;
}
void *__wrap_mmap(void *addr, size_t len, int prot, int flags, int fd, off_t off)
{
    if (fail_now(FI_MMAP, len)) {
        errno = ENOMEM;
        return MAP_FAILED;
    }
    void *p = __real_mmap(addr, len, prot, flags, fd, off);
    if (p != MAP_FAILED)
        l_add(p, len, FI_MMAP);
    return p;
}
int __wrap_munmap(void *addr, size_t len)
{
    l_del(addr);
    return __real_munmap(addr, len);
}

/* called by dsched's pthread wrappers: phase +1 = about to construct (return
 * non-zero to make it fail), 0 = constructed, -1 = destroyed / joined */
int fi_hook(int kind, void *obj, int phase)
{
    if (phase > 0)
        return fail_now(kind, 0);
    if (phase == 0)
        l_add(obj, 0, kind);
    else
        l_del(obj);
    return 0;
}
