/* Force-included into every libabt translation unit of the "coarse" flavour
 * (gcc -include vhook.h -DABT_VERIF_DSCHED).  Every atomic builtin becomes a
 * scheduling point of dsched: one before the operation and, for stores and
 * read-modify-writes, one after it.  A function-like macro is not re-expanded
 * inside its own expansion, so the inner name is the real builtin. */
#ifndef VHOOK_H
#define VHOOK_H
#if defined(ABT_VERIF_DSCHED) && !defined(__ASSEMBLER__)
extern void vsp(const volatile void *addr, int kind);
#define __atomic_load_n(p, o) ({ vsp((p), 0); __atomic_load_n((p), (o)); })
#define __atomic_store_n(p, v, o)                                              \
    ({ vsp((p), 1); __atomic_store_n((p), (v), (o)); vsp((p), 5); })
#define VHOOK_RMW(call, p)                                                     \
    ({ vsp((p), 2); __auto_type vh_r_ = call; vsp((p), 5); vh_r_; })
#define __atomic_compare_exchange_n(p, e, d, w, s, f)                          \
    VHOOK_RMW(__atomic_compare_exchange_n((p), (e), (d), (w), (s), (f)), p)
#define __atomic_exchange_n(p, v, o) VHOOK_RMW(__atomic_exchange_n((p), (v), (o)), p)
#define __atomic_fetch_add(p, v, o) VHOOK_RMW(__atomic_fetch_add((p), (v), (o)), p)
#define __atomic_fetch_sub(p, v, o) VHOOK_RMW(__atomic_fetch_sub((p), (v), (o)), p)
#define __atomic_fetch_and(p, v, o) VHOOK_RMW(__atomic_fetch_and((p), (v), (o)), p)
#define __atomic_fetch_or(p, v, o) VHOOK_RMW(__atomic_fetch_or((p), (v), (o)), p)
#define __atomic_fetch_xor(p, v, o) VHOOK_RMW(__atomic_fetch_xor((p), (v), (o)), p)
#define __atomic_test_and_set(p, o) VHOOK_RMW(__atomic_test_and_set((p), (o)), p)
#define __atomic_clear(p, o)                                                   \
    ({ vsp((p), 1); __atomic_clear((p), (o)); vsp((p), 5); })
/* the 128-bit compare-and-swap of the tagged-pointer LIFO is inline assembly:
 * wrap it so that it is a scheduling point like the builtins */
#if defined(__x86_64__) && !defined(VHOOK_NO_INT128)
#define ABTD_asm_bool_cas_weak_int128 ABTD_asm_bool_cas_weak_int128_real
#include "asm/abtd_asm_int128_cas.h"
#undef ABTD_asm_bool_cas_weak_int128
static inline int ABTD_asm_bool_cas_weak_int128(__int128 *var, __int128 oldv, __int128 newv)
{
    vsp(var, 2);
    int vh_r_ = ABTD_asm_bool_cas_weak_int128_real(var, oldv, newv);
    vsp(var, 5);
    return vh_r_;
}
#endif
#endif
#endif
