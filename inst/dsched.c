/* dsched: deterministic scheduler that serialises all OS threads of the
 * process and emulates every blocking primitive libabt uses on a virtual
 * clock.  Linked with -Wl,--wrap=<sym> for the symbols wrapped below.
 * See DESIGN.md section 2. */
#define _GNU_SOURCE
#include <pthread.h>
#include <stdio.h>
#include <stdlib.h>
#include <stdint.h>
#include <string.h>
#include <unistd.h>
#include <time.h>
#include <errno.h>
#include <limits.h>
#include <sys/syscall.h>
#include <linux/futex.h>
#include <stdarg.h>
#include "dsched.h"

int __real_pthread_mutex_init(pthread_mutex_t *, const pthread_mutexattr_t *);
int __real_pthread_mutex_lock(pthread_mutex_t *);
int __real_pthread_mutex_trylock(pthread_mutex_t *);
int __real_pthread_mutex_unlock(pthread_mutex_t *);
int __real_pthread_mutex_destroy(pthread_mutex_t *);
int __real_pthread_cond_init(pthread_cond_t *, const pthread_condattr_t *);
int __real_pthread_cond_destroy(pthread_cond_t *);
int __real_pthread_cond_timedwait(pthread_cond_t *, pthread_mutex_t *,
                                  const struct timespec *);
int __real_pthread_cond_wait(pthread_cond_t *, pthread_mutex_t *);
int __real_pthread_cond_signal(pthread_cond_t *);
int __real_pthread_cond_broadcast(pthread_cond_t *);
int __real_pthread_barrier_init(pthread_barrier_t *,
                                const pthread_barrierattr_t *, unsigned);
int __real_pthread_barrier_wait(pthread_barrier_t *);
int __real_pthread_barrier_destroy(pthread_barrier_t *);
int __real_pthread_create(pthread_t *, const pthread_attr_t *,
                          void *(*)(void *), void *);
int __real_pthread_join(pthread_t, void **);
int __real_clock_gettime(clockid_t, struct timespec *);
int __real_nanosleep(const struct timespec *, struct timespec *);
time_t __real_time(time_t *);
long __real_syscall(long, ...);
int __real_sched_yield(void);

#define MAXT 48
#define MAXOBJ 512

enum { ST_FREE = 0, ST_RUN, ST_SPIN, ST_WAIT, ST_DONE };

typedef struct {
    int state;
    volatile int go;
    uint64_t sleep_epoch;
    int has_deadline;
    uint64_t deadline_ns;
    void *wait_obj;
    int woken;
    unsigned pure_loads;
    int pending_write;
    int clock_reader;
    unsigned backoff;
    uint64_t last_sleep_epoch;
    int64_t prio;
    pthread_t native;
    void *(*fn)(void *);
    void *arg;
} vth;

static vth T[MAXT];
static int g_enabled = 0;
static __thread int self_id = -1;
static uint64_t g_epoch = 1;
static uint64_t g_now_ns;
static ds_cfg g_cfg;
static uint64_t g_rng;
static uint64_t g_cp[8]; /* pct change points */
static int g_cp_done[8];
static int g_ncp;
static int g_idle_rounds;
static uint64_t g_idle_epoch;
static void (*g_hang_cb)(const char *);
static int g_trace;
#define TRACE(...) do { if (g_trace) fprintf(stderr, __VA_ARGS__); } while (0)

uint64_t ds_steps, ds_switches, ds_spin_sleeps, ds_clock_jumps;
int ds_fine = 1;

static inline uint64_t rnd(void)
{
    /* splitmix64: consecutive outputs are independent enough for
     * "pre-empt?" followed by "to whom?" (plain xorshift is not) */
    uint64_t z = (g_rng += 0x9e3779b97f4a7c15ull);
    z = (z ^ (z >> 30)) * 0xbf58476d1ce4e5b9ull;
    z = (z ^ (z >> 27)) * 0x94d049bb133111ebull;
    return z ^ (z >> 31);
}

static void fwait(volatile int *p)
{
    while (__atomic_load_n(p, __ATOMIC_ACQUIRE) == 0)
        __real_syscall(SYS_futex, p, FUTEX_WAIT_PRIVATE, 0, NULL, NULL, 0);
    __atomic_store_n(p, 0, __ATOMIC_RELAXED);
}
static void fwake(volatile int *p)
{
    __atomic_store_n(p, 1, __ATOMIC_RELEASE);
    __real_syscall(SYS_futex, p, FUTEX_WAKE_PRIVATE, 1, NULL, NULL, 0);
}

void ds_describe(char *buf, int len)
{
    int n = 0;
    for (int i = 0; i < MAXT && n < len - 40; i++)
        if (T[i].state != ST_FREE)
            n += snprintf(buf + n, len - n, "t%d:%s%s ", i,
                          T[i].state == ST_RUN
                              ? "run"
                              : T[i].state == ST_SPIN
                                    ? "spin"
                                    : T[i].state == ST_WAIT ? "wait" : "done",
                          T[i].has_deadline ? "+dl" : "");
    if (len > 0)
        buf[n < len ? n : len - 1] = 0;
}

static void hang(const char *kind)
{
    g_enabled = 0;
    if (g_hang_cb)
        g_hang_cb(kind);
    fprintf(stderr, "DS: HANG %s steps=%lu\n", kind, (unsigned long)ds_steps);
    _exit(3);
}

static int runnable(int i)
{
    vth *t = &T[i];
    switch (t->state) {
        case ST_RUN:
            return 1;
        case ST_SPIN:
            if (t->sleep_epoch != g_epoch)
                return 1;
            /* fallthrough */
        case ST_WAIT:
            return t->has_deadline && t->deadline_ns <= g_now_ns;
        default:
            return 0;
    }
}

/* choose among runnable threads according to the strategy */
static int choose_from(const int *cand, int n)
{
    if (g_cfg.strat == DS_PCT && ds_steps < g_cfg.pct_len) {
        int best = cand[0];
        for (int k = 1; k < n; k++)
            if (T[cand[k]].prio > T[best].prio)
                best = cand[k];
        return best;
    }
    return cand[rnd() % n];
}

/* find somebody to run; may advance the virtual clock; -1 if all done */
static int pick_next(int me, int allow_me)
{
    int cand[MAXT], n;
    for (;;) {
        n = 0;
        int alive = 0;
        for (int i = 0; i < MAXT; i++) {
            if (T[i].state == ST_FREE || T[i].state == ST_DONE)
                continue;
            if (i == me && !allow_me)
                continue;
            alive++;
            if (runnable(i))
                cand[n++] = i;
        }
        if (n)
            return choose_from(cand, n);
        if (!alive)
            return -1;
        uint64_t best = UINT64_MAX;
        for (int i = 0; i < MAXT; i++) {
            if (i == me && !allow_me)
                continue;
            if (T[i].state != ST_SPIN && T[i].state != ST_WAIT)
                continue;
            if (T[i].has_deadline && T[i].deadline_ns < best)
                best = T[i].deadline_ns;
        }
        if (best == UINT64_MAX)
            hang("deadlock"); /* everybody waits for an event nobody can produce */
        /* only timers are left: let virtual time leap.  If nothing at all is
         * written during many consecutive timer expirations, nothing ever will
         * be (idle schedulers and polling loops back off exponentially, so a
         * legitimate quiet period costs few rounds). */
        if (g_idle_epoch != g_epoch) {
            g_idle_epoch = g_epoch;
            g_idle_rounds = 0;
        }
        if (++g_idle_rounds > 400)
            hang("deadlock");
        if (best > g_now_ns)
            g_now_ns = best;
        ds_clock_jumps++;
    }
}

static void switch_to(int next)
{
    int me = self_id;
    if (next == me)
        return;
    ds_switches++;
    fwake(&T[next].go);
    fwait(&T[me].go);
}

/* The calling thread cannot proceed; it has already set its state. */
static void yield_blocked(void)
{
    int me = self_id;
    int next = pick_next(me, 1);
    T[me].pure_loads = 0;
    if (next != me)
        switch_to(next);
    T[me].state = ST_RUN;
    T[me].has_deadline = 0;
    T[me].wait_obj = NULL;
}

static unsigned backoff_level(vth *t)
{
    /* consecutive sleeps of this thread during which nobody wrote anything */
    if (t->last_sleep_epoch == g_epoch) {
        if (t->backoff < 30)
            t->backoff++;
    } else {
        t->backoff = 0;
    }
    t->last_sleep_epoch = g_epoch;
    return t->backoff;
}

/* A read-spinning thread sleeps until somebody writes, or until a timeout
 * that doubles while nothing happens (an idle scheduler re-checks its stop
 * condition only every N-th empty iteration, which is invisible from here). */
static void spin_sleep(void)
{
    int me = self_id;
    ds_spin_sleeps++;
    unsigned b = backoff_level(&T[me]);
    T[me].state = ST_SPIN;
    T[me].sleep_epoch = g_epoch;
    T[me].has_deadline = 1;
    T[me].deadline_ns = g_now_ns + (2000ull << (b > 13 ? 13 : b));
    T[me].clock_reader = 0;
    yield_blocked();
}

static void wait_on(void *obj, int has_deadline, uint64_t deadline)
{
    int me = self_id;
    T[me].state = ST_WAIT;
    T[me].wait_obj = obj;
    T[me].woken = 0;
    T[me].has_deadline = has_deadline;
    T[me].deadline_ns = deadline;
    yield_blocked();
}

/* wake up to n waiters of obj, chosen at random; returns the number woken */
static int wake_obj(void *obj, int n)
{
    int cand[MAXT], c = 0, woken = 0;
    for (int i = 0; i < MAXT; i++)
        if (T[i].state == ST_WAIT && T[i].wait_obj == obj && !T[i].woken)
            cand[c++] = i;
    while (c > 0 && woken < n) {
        int k = (int)(rnd() % c);
        int id = cand[k];
        cand[k] = cand[--c];
        T[id].woken = 1;
        T[id].state = ST_RUN;
        woken++;
    }
    return woken;
}

static void maybe_preempt(void)
{
    int me = self_id;
    if (g_cfg.strat == DS_PCT && ds_steps < g_cfg.pct_len) {
        for (int k = 0; k < g_ncp; k++)
            if (!g_cp_done[k] && ds_steps >= g_cp[k]) {
                g_cp_done[k] = 1;
                T[me].prio = -(int64_t)(k + 1);
            }
        int next = pick_next(me, 1);
        if (next >= 0 && next != me)
            switch_to(next);
        return;
    }
    unsigned mask = g_cfg.mask;
    if (g_cfg.strat == DS_PCT)
        mask = 3;
    else if (ds_steps > g_cfg.step_limit / 2)
        mask = 1; /* fair tail */
    if ((rnd() & mask) == 0) {
        int next = pick_next(me, 1);
        if (next >= 0 && next != me)
            switch_to(next);
    }
}

void vsp(const volatile void *addr, int kind)
{
    (void)addr;
    int me = self_id;
    if (!g_enabled || me < 0)
        return;
    vth *t = &T[me];
    if (t->pending_write) {
        t->pending_write = 0;
        g_epoch++;
    }
    ds_steps++;
    g_now_ns += g_cfg.tick_ns;
    if (ds_steps > g_cfg.step_limit)
        hang("steplimit");
    switch (kind) {
        case VK_ALOAD:
        case VK_PREAD:
            if (++t->pure_loads > g_cfg.spin_thresh) {
                spin_sleep();
                return;
            }
            break;
        case VK_PWRITE:
            t->pure_loads = 0;
            t->pending_write = 1;
            break;
        case VK_POST:
            g_epoch++;
            t->pure_loads = 0;
            break;
        default:
            t->pure_loads = 0;
            break;
    }
    maybe_preempt();
}

/* ------------------------------------------------------------------ */

void ds_set_hang_cb(void (*cb)(const char *))
{
    g_hang_cb = cb;
}
int ds_active(void)
{
    return g_enabled && self_id >= 0;
}
int ds_self(void)
{
    return self_id;
}
uint64_t ds_now(void)
{
    if (!g_enabled) {
        struct timespec ts;
        __real_clock_gettime(CLOCK_REALTIME, &ts);
        return (uint64_t)ts.tv_sec * 1000000000ull + ts.tv_nsec;
    }
    return g_now_ns;
}
void ds_advance(uint64_t ns)
{
    TRACE("[%lu] advance %lu\n", (unsigned long)ds_steps, (unsigned long)ns);
    g_now_ns += ns;
    g_epoch++;
}
void ds_touch(void)
{
    g_epoch++;
}
void ds_point(void)
{
    vsp(NULL, VK_ARMW);
}
uint64_t ds_epoch(void)
{
    return g_epoch;
}
/* Sleep until something is written after the moment ds_epoch() returned e.
 * (Check-then-sleep of a harness condition must not lose a write that lands
 * between the check and the sleep.) */
void ds_wait_since(uint64_t e)
{
    if (!ds_active()) {
        __real_sched_yield();
        return;
    }
    int me = self_id;
    ds_steps++;
    if (ds_steps > g_cfg.step_limit)
        hang("steplimit");
    if (T[me].pending_write) {
        T[me].pending_write = 0;
        g_epoch++;
    }
    T[me].state = ST_SPIN;
    T[me].sleep_epoch = e;
    T[me].has_deadline = 0;
    yield_blocked();
}
void ds_wait_change(void)
{
    if (!ds_active()) {
        __real_sched_yield();
        return;
    }
    int me = self_id;
    ds_steps++;
    if (ds_steps > g_cfg.step_limit)
        hang("steplimit");
    T[me].state = ST_SPIN;
    T[me].sleep_epoch = g_epoch;
    yield_blocked();
}
void ds_sleep_until(uint64_t abs_ns)
{
    if (!ds_active()) {
        for (;;) {
            uint64_t n = ds_now();
            if (n >= abs_ns)
                return;
            struct timespec ts = { (time_t)((abs_ns - n) / 1000000000ull),
                                   (long)((abs_ns - n) % 1000000000ull) };
            __real_nanosleep(&ts, NULL);
        }
    }
    while (g_now_ns < abs_ns) {
        ds_steps++;
        wait_on(NULL, 1, abs_ns);
    }
}

void ds_begin(const ds_cfg *cfg)
{
    memset(T, 0, sizeof(T));
    g_cfg = *cfg;
    if (!g_cfg.step_limit)
        g_cfg.step_limit = 3000000;
    if (!g_cfg.spin_thresh)
        g_cfg.spin_thresh = 40;
    if (!g_cfg.tick_ns)
        g_cfg.tick_ns = 1;
    g_rng = cfg->seed * 2654435761u + 88172645463325252ull;
    for (int i = 0; i < 4; i++)
        rnd();
    ds_steps = ds_switches = ds_spin_sleeps = ds_clock_jumps = 0;
    g_epoch = 1;
    g_idle_rounds = 0;
    g_idle_epoch = 0;
    g_now_ns = cfg->clock0_ns ? cfg->clock0_ns : 1000000000ull * 1000;
    g_ncp = 0;
    if (g_cfg.strat == DS_PCT) {
        if (!g_cfg.pct_len)
            g_cfg.pct_len = 20000;
        g_ncp = g_cfg.pct_d > 8 ? 8 : g_cfg.pct_d;
        for (int k = 0; k < g_ncp; k++) {
            g_cp[k] = 1 + rnd() % g_cfg.pct_len;
            g_cp_done[k] = 0;
        }
    }
    g_trace = getenv("DS_TRACE") != NULL;
    self_id = 0;
    T[0].state = ST_RUN;
    T[0].prio = 1000 + (int64_t)(rnd() % 1000);
    g_enabled = 1;
}
void ds_end(void)
{
    g_enabled = 0;
}

/* ---- emulated pthread objects ------------------------------------- */
typedef struct {
    void *addr;
    int locked;
    int owner;
    unsigned count, arrived;
    uint64_t gen;
} vobj;
static vobj O[MAXOBJ];
static int g_nobj;

static vobj *obj_find(void *a, int create)
{
    int freei = -1;
    for (int i = 0; i < g_nobj; i++) {
        if (O[i].addr == a)
            return &O[i];
        if (!O[i].addr && freei < 0)
            freei = i;
    }
    if (!create)
        return NULL;
    if (freei < 0) {
        if (g_nobj == MAXOBJ) {
            fprintf(stderr, "DS: object table full\n");
            _exit(4);
        }
        freei = g_nobj++;
    }
    memset(&O[freei], 0, sizeof(vobj));
    O[freei].addr = a;
    return &O[freei];
}
static void obj_drop(void *a)
{
    vobj *o = obj_find(a, 0);
    if (o)
        o->addr = NULL;
}

#define ACTIVE (g_enabled && self_id >= 0)

/* fault injector / resource ledger (wrap_alloc.c): kinds as in wrap_alloc.h */
int fi_hook(int kind, void *obj, int phase) __attribute__((weak));
#define FI_PRE(kind, obj, err)                                                 \
    do {                                                                       \
        if (fi_hook && fi_hook((kind), (obj), 1))                              \
            return (err);                                                      \
    } while (0)
#define FI_POST(kind, obj, phase)                                              \
    do {                                                                       \
        if (fi_hook)                                                           \
            fi_hook((kind), (obj), (phase));                                   \
    } while (0)
int __wrap_pthread_mutex_init(pthread_mutex_t *m, const pthread_mutexattr_t *a)
{
    FI_PRE(6, m, ENOMEM);
    obj_drop(m);
    int r = __real_pthread_mutex_init(m, a);
    if (r == 0)
        FI_POST(6, m, 0);
    return r;
}
int __wrap_pthread_cond_init(pthread_cond_t *c, const pthread_condattr_t *a)
{
    FI_PRE(7, c, ENOMEM);
    obj_drop(c);
    int r = __real_pthread_cond_init(c, a);
    if (r == 0)
        FI_POST(7, c, 0);
    return r;
}
int __wrap_pthread_mutex_lock(pthread_mutex_t *m)
{
    if (!ACTIVE)
        return __real_pthread_mutex_lock(m);
    vsp(m, VK_ARMW);
    vobj *o = obj_find(m, 1);
    while (o->locked) {
        wait_on(m, 0, 0);
        o = obj_find(m, 1);
    }
    o->locked = 1;
    o->owner = self_id;
    return 0;
}
int __wrap_pthread_mutex_trylock(pthread_mutex_t *m)
{
    if (!ACTIVE)
        return __real_pthread_mutex_trylock(m);
    vsp(m, VK_ARMW);
    vobj *o = obj_find(m, 1);
    if (o->locked)
        return EBUSY;
    o->locked = 1;
    o->owner = self_id;
    return 0;
}
int __wrap_pthread_mutex_unlock(pthread_mutex_t *m)
{
    if (!ACTIVE)
        return __real_pthread_mutex_unlock(m);
    vobj *o = obj_find(m, 1);
    o->locked = 0;
    wake_obj(m, INT_MAX);
    vsp(m, VK_POST);
    return 0;
}
int __wrap_pthread_mutex_destroy(pthread_mutex_t *m)
{
    FI_POST(6, m, -1);
    obj_drop(m);
    return __real_pthread_mutex_destroy(m);
}
int __wrap_pthread_cond_destroy(pthread_cond_t *c)
{
    FI_POST(7, c, -1);
    obj_drop(c);
    return __real_pthread_cond_destroy(c);
}
static uint64_t ts_ns(const struct timespec *ts)
{
    return (uint64_t)ts->tv_sec * 1000000000ull + (uint64_t)ts->tv_nsec;
}
int __wrap_pthread_cond_timedwait(pthread_cond_t *c, pthread_mutex_t *m,
                                  const struct timespec *abst)
{
    if (!ACTIVE)
        return __real_pthread_cond_timedwait(c, m, abst);
    int me = self_id;
    int ret = 0;
    /* release the mutex and start waiting atomically */
    vobj *om = obj_find(m, 1);
    om->locked = 0;
    wake_obj(m, INT_MAX);
    ds_steps++;
    g_epoch++;
    if (abst && ts_ns(abst) <= g_now_ns) {
        ret = ETIMEDOUT;
        vsp(c, VK_ARMW);
    } else {
        wait_on(c, abst != NULL, abst ? ts_ns(abst) : 0);
        if (!T[me].woken)
            ret = ETIMEDOUT;
    }
    T[me].woken = 0;
    __wrap_pthread_mutex_lock(m);
    return ret;
}
int __wrap_pthread_cond_wait(pthread_cond_t *c, pthread_mutex_t *m)
{
    if (!ACTIVE)
        return __real_pthread_cond_wait(c, m);
    return __wrap_pthread_cond_timedwait(c, m, NULL);
}
int __wrap_pthread_cond_signal(pthread_cond_t *c)
{
    if (!ACTIVE)
        return __real_pthread_cond_signal(c);
    vsp(c, VK_ARMW);
    wake_obj(c, 1);
    vsp(c, VK_POST);
    return 0;
}
int __wrap_pthread_cond_broadcast(pthread_cond_t *c)
{
    if (!ACTIVE)
        return __real_pthread_cond_broadcast(c);
    vsp(c, VK_ARMW);
    wake_obj(c, INT_MAX);
    vsp(c, VK_POST);
    return 0;
}
int __wrap_pthread_barrier_init(pthread_barrier_t *b,
                                const pthread_barrierattr_t *a, unsigned n)
{
    FI_PRE(8, b, ENOMEM);
    FI_POST(8, b, 0);
    obj_drop(b);
    vobj *o = obj_find(b, 1);
    o->count = n;
    o->arrived = 0;
    return __real_pthread_barrier_init(b, a, n);
}
int __wrap_pthread_barrier_destroy(pthread_barrier_t *b)
{
    FI_POST(8, b, -1);
    obj_drop(b);
    return __real_pthread_barrier_destroy(b);
}
int __wrap_pthread_barrier_wait(pthread_barrier_t *b)
{
    if (!ACTIVE)
        return __real_pthread_barrier_wait(b);
    vsp(b, VK_ARMW);
    vobj *o = obj_find(b, 1);
    if (++o->arrived == o->count) {
        o->arrived = 0;
        o->gen++;
        wake_obj(b, INT_MAX);
        vsp(b, VK_POST);
        return PTHREAD_BARRIER_SERIAL_THREAD;
    }
    uint64_t gen = o->gen;
    do {
        wait_on(b, 0, 0);
        o = obj_find(b, 1);
    } while (o->gen == gen);
    return 0;
}

static void *tramp(void *p)
{
    int id = (int)(intptr_t)p;
    self_id = id;
    fwait(&T[id].go);
    void *r = T[id].fn(T[id].arg);
    /* finished: wake joiners, hand the token over, never wait again */
    if (T[id].pending_write)
        g_epoch++;
    T[id].state = ST_DONE;
    g_epoch++;
    wake_obj(&T[id], INT_MAX);
    self_id = -1;
    if (g_enabled) {
        int next = pick_next(id, 0);
        if (next >= 0) {
            ds_switches++;
            fwake(&T[next].go);
        }
    }
    return r;
}
int __wrap_pthread_create(pthread_t *t, const pthread_attr_t *a,
                          void *(*fn)(void *), void *arg)
{
    FI_PRE(5, NULL, EAGAIN);
    if (!ACTIVE) {
        int r = __real_pthread_create(t, a, fn, arg);
        if (r == 0)
            FI_POST(5, (void *)*t, 0);
        return r;
    }
    int id = -1;
    for (int i = 1; i < MAXT; i++)
        if (T[i].state == ST_FREE) {
            id = i;
            break;
        }
    if (id < 0) {
        fprintf(stderr, "DS: thread table full\n");
        _exit(4);
    }
    memset(&T[id], 0, sizeof(vth));
    T[id].fn = fn;
    T[id].arg = arg;
    T[id].prio = 1000 + (int64_t)(rnd() % 1000);
    int r = __real_pthread_create(&T[id].native, a, tramp,
                                  (void *)(intptr_t)id);
    if (r != 0)
        return r;
    T[id].state = ST_RUN;
    *t = T[id].native;
    FI_POST(5, (void *)*t, 0);
    vsp(t, VK_POST);
    return 0;
}
int __wrap_pthread_join(pthread_t t, void **ret)
{
    FI_POST(5, (void *)t, -1);
    if (!ACTIVE)
        return __real_pthread_join(t, ret);
    int id = -1;
    for (int i = 1; i < MAXT; i++)
        if (T[i].state != ST_FREE && pthread_equal(T[i].native, t))
            id = i;
    if (id < 0)
        return __real_pthread_join(t, ret);
    vsp(&T[id], VK_ARMW);
    while (T[id].state != ST_DONE)
        wait_on(&T[id], 0, 0);
    int r = __real_pthread_join(t, ret);
    T[id].state = ST_FREE;
    return r;
}
int __wrap_clock_gettime(clockid_t c, struct timespec *ts)
{
    if (!ACTIVE)
        return __real_clock_gettime(c, ts);
    T[self_id].clock_reader = 1;
    g_now_ns += 20;
    ts->tv_sec = (time_t)(g_now_ns / 1000000000ull);
    ts->tv_nsec = (long)(g_now_ns % 1000000000ull);
    return 0;
}
int __wrap_nanosleep(const struct timespec *req, struct timespec *rem)
{
    if (!ACTIVE)
        return __real_nanosleep(req, rem);
    (void)rem;
    /* nanosleep may oversleep: polling loops built on 100 ns sleeps (pool
     * pop_wait) get a 20 us quantum so that waiting 0.1 s stays affordable */
    uint64_t want = ts_ns(req);
    unsigned b = backoff_level(&T[self_id]);
    uint64_t q = 20000ull << (b > 9 ? 9 : b);
    if (want < q)
        want = q;
    uint64_t dl = g_now_ns + want;
    ds_steps++;
    if (ds_steps > g_cfg.step_limit)
        hang("steplimit");
    while (g_now_ns < dl)
        wait_on(NULL, 1, dl);
    return 0;
}
int __wrap_sched_yield(void)
{
    if (!ACTIVE)
        return __real_sched_yield();
    vsp(NULL, VK_ALOAD);
    return 0;
}
time_t __wrap_time(time_t *t)
{
    time_t v = ACTIVE ? (time_t)(g_now_ns / 1000000000ull) : __real_time(NULL);
    if (t)
        *t = v;
    return v;
}
long __wrap_syscall(long no, ...)
{
    va_list ap;
    va_start(ap, no);
    long a1 = va_arg(ap, long), a2 = va_arg(ap, long), a3 = va_arg(ap, long),
         a4 = va_arg(ap, long), a5 = va_arg(ap, long), a6 = va_arg(ap, long);
    va_end(ap);
    if (!ACTIVE || no != SYS_futex)
        return __real_syscall(no, a1, a2, a3, a4, a5, a6);
    int *uaddr = (int *)a1;
    int op = (int)a2 & ~FUTEX_PRIVATE_FLAG;
    int me = self_id;
    if (op == FUTEX_WAIT) {
        int val = (int)a3;
        const struct timespec *rel = (const struct timespec *)a4;
        vsp(uaddr, VK_ARMW);
        if (__atomic_load_n(uaddr, __ATOMIC_SEQ_CST) != val) {
            errno = EAGAIN;
            return -1;
        }
        uint64_t dl = rel ? g_now_ns + ts_ns(rel) : 0;
        TRACE("[%lu] t%d futex_wait %p val=%d rel=%ld.%09ld now=%lu dl=%lu\n", (unsigned long)ds_steps, me,
              (void *)uaddr, val, rel ? (long)rel->tv_sec : -1, rel ? rel->tv_nsec : 0,
              (unsigned long)g_now_ns, (unsigned long)dl);
        wait_on(uaddr, rel != NULL, dl);
        int w = T[me].woken;
        TRACE("[%lu] t%d futex_wait returns woken=%d now=%lu\n", (unsigned long)ds_steps, me, w,
              (unsigned long)g_now_ns);
        T[me].woken = 0;
        if (!w) {
            errno = ETIMEDOUT;
            return -1;
        }
        return 0;
    } else if (op == FUTEX_WAKE) {
        vsp(uaddr, VK_ARMW);
        int n = wake_obj(uaddr, (int)a3);
        TRACE("[%lu] t%d futex_wake %p n=%d woke=%d\n", (unsigned long)ds_steps, me, (void *)uaddr,
              (int)a3, n);
        vsp(uaddr, VK_POST);
        return n;
    }
    fprintf(stderr, "DS: unsupported futex op %d\n", op);
    _exit(4);
}
