/* dsched: harness-owned deterministic scheduler for all OS threads of the
 * process (see DESIGN.md section 2). */
#ifndef DSCHED_H
#define DSCHED_H
#include <stdint.h>

enum { DS_RANDOM = 0, DS_PCT = 1 };

typedef struct {
    uint64_t seed;
    int strat;           /* DS_RANDOM | DS_PCT */
    unsigned mask;       /* random: pre-empt with probability 1/(mask+1) */
    int pct_d;           /* pct: number of priority change points */
    uint64_t pct_len;    /* pct: steps during which pct is in force */
    uint64_t step_limit; /* livelock bound */
    unsigned spin_thresh; /* consecutive pure loads => read-spinning */
    uint64_t clock0_ns;
    uint64_t tick_ns;    /* virtual nanoseconds per scheduling point (default 1) */
} ds_cfg;

/* kinds for vsp() */
enum {
    VK_ALOAD = 0,  /* atomic load (before) */
    VK_ASTORE = 1, /* atomic store (before) */
    VK_ARMW = 2,   /* atomic rmw (before) */
    VK_PREAD = 3,  /* plain read (before) */
    VK_PWRITE = 4, /* plain write (before) */
    VK_POST = 5    /* after an atomic store / rmw */
};

void vsp(const volatile void *addr, int kind);

void ds_begin(const ds_cfg *cfg);
void ds_end(void);
int ds_active(void);
int ds_self(void);
uint64_t ds_now(void);
void ds_advance(uint64_t ns);
/* harness-level waiting: block the calling OS thread until some write
 * happens anywhere (never returns before a scheduling decision was made) */
void ds_wait_change(void);
uint64_t ds_epoch(void);
void ds_wait_since(uint64_t e);
/* harness-level sleep until the virtual clock reaches abs ns */
void ds_sleep_until(uint64_t abs_ns);
/* note that the harness wrote shared harness state */
void ds_touch(void);
/* plain scheduling point of the harness */
void ds_point(void);
/* hang callback: kind is "deadlock" or "steplimit"; must not return */
void ds_set_hang_cb(void (*cb)(const char *kind));
void ds_describe(char *buf, int len);

extern uint64_t ds_steps, ds_switches, ds_spin_sleeps, ds_clock_jumps;
extern int ds_fine;

#endif
